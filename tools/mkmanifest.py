#!/usr/bin/env python3
"""Regenerates MANIFEST.json from the table below (kept in one place so that it is always valid)."""
import json, os
ROOT = os.path.dirname(os.path.dirname(os.path.abspath(__file__)))
CHECKS = {
 'C03': dict(
    text='Bounded symbolic execution of real unify and query generators that are ended in a symbolic way at a symbolic point: run to exhaustion, '
         'close(), dropped, consumer throw(), or a user-supplied Python predicate raising at its j-th invocation, after k<=3 answers; 15 compiled '
         'skeletons (joins, repeated head variables, lists, =/\\=, cut, if-then-else, \\+, once, findall, user predicate) over symbolic facts and '
         'query modes. On every path: answers are the expected prefix, EVERY engine Variable created during the run (YLDPROLOG_VERIF hook registry) '
         'is unbound afterwards, the injected exception object escapes unchanged, and a re-run on the same engine/variables gives the reference answers.',
    note='Generators are finalised by CPython reference counting (executed, not modelled); cyclic GC outside; bounded skeleton family, facts<=2, k<=3.',
    tech='symbolic execution with symbolic abandonment/fault points (CrossHair+z3) + variable registry hook', ref='2 C03'),
 'C04': dict(
    text='Bounded symbolic execution of ONE arbitrary operation (load with symbolic overwrite, assert, retract, retractall, register, clear, atom creation, '
         'start/step/abandon a query) on engine A while engine B - in an arbitrary small state chosen by symbolic codes, with a query suspended after a symbolic '
         'number of answers - is observed: B\'s battery, the continuation of its suspended query and its atoms are unchanged; symbolic schedules (<=6 steps) of '
         'next() over suspended queries on one or two engines give each query the answers it has alone; on every path the mutable object graphs of the two '
         'instances are disjoint and no module-/class-level container of the engine module changes (sufficient condition for the thread part).',
    note='Pre-emptive OS-thread schedules are outside the solver\'s reach: only the sufficient condition (disjoint heaps, no module-/class-level container that changes) is established.',
    tech='symbolic execution of one-step non-interference and generator schedules (CrossHair+z3) + heap-disjointness monitor', ref='2 C04'),
 'C08': dict(
    text='Bounded symbolic execution of histories of 3 (thorough 4) operations - load of pool scripts with symbolic overwrite (incl. a load that raises), '
         'register_function with inferred/explicit 0,1,2/variadic arity (also explicit arity on a *args function), assert, clear - with a battery of queries '
         'after every step compared with a list-of-definitions model (facts first, exact arity in load order each with its own cut, variadic only if none, '
         'failing load = no change, late binding). Plus direct SMT (z3 bounded + cvc5 unbounded) on the key expressions read from engine.py\'s AST: no two '
         'name/arity pairs share a key, fixed keys never equal variadic keys, no callable name reaches an API entry.',
    note='Bounded history length and script pool; SMT: arity rendered in canonical decimal; z3 length bound 12, cvc5 unbounded.',
    tech='symbolic execution of load/register histories (CrossHair+z3) vs definitions model; SMT (z3+cvc5) on key strings', ref='2 C08'),
 'C09': dict(
    text='Bounded symbolic execution of call/N, once/1, findall/3 through YP.query on goals over dynamic predicates (0..2 facts, symbolic integer columns): builtin, '
         'target, goal form (inline / held in a variable bound at run time / trailing arguments moved into call/N extras), argument modes and template symbolic; '
         'the same shapes as compiled Prolog skeletons; = and \\= on decoded term pairs; all compared with the reference interpreter / unifier.',
    note='Bounded fact counts and term shapes; goals are callable terms.',
    tech='symbolic execution of the meta-call builtins (CrossHair+z3) vs reference interpreter', ref='2 C09'),
 'C10': dict(
    text='The ANTLR runtime cannot be executed symbolically, so the property is decided at the compiler DRIVER: CrossHair executes _compile_prolog_from_stream / '
         'compile_prolog_from_string against a front-end stub that reports a symbolic number of lexer and parser syntax errors (symbolic line, column, message) to the '
         'listeners the driver installed and leaves a next token that is EOF or not; the driver must raise iff anything was reported or input is left, else return the '
         'code of the whole tree. Counterexamples are replayed end-to-end with witness texts. The stub contract and end-to-end behaviour are validated natively: a '
         'longest-match lexer and an Earley recogniser derived from prolog.g4 (independent of ANTLR) decide sentencehood of the repository samples, a generated '
         'corpus and all their single-token edits; every non-sentence must be rejected and every accepted text must define exactly its clause heads.',
    note='Solver claim is about the driver under the stub contract; the accepted language of the generated parser is validated (corpus + single edits), not proved.',
    tech='symbolic execution of the compiler driver against a contract-stubbed front end (CrossHair+z3); grammar-derived recogniser for validation', ref='2 C10'),
 'C11': dict(
    text='CrossHair executes the visitor/generator units on SYMBOLIC token text: NUMERAL lexemes -> emitted Python decimal literal of equal value; VARIABLE lexemes -> '
         'emitted name is an identifier, not reserved (keywords, __debug__, engine-context names, generator names) and the mapping is injective; clause-head names -> '
         'CompilerError or an exact def header with an ASCII identifier. Program shapes (<=4 clauses, names x arities) and sizes (conjunction length 1..25, if-then-else '
         'nesting, term/list nesting around Python\'s limits, dead bodies) are enumerated through the solver and checked with CPython compile() and the engine loader: '
         'accepted => loads and defines exactly one generator function per clause-head key.',
    note='Lexeme length bounds (<=4 quick); module-level string sets are wrapped in a ==-chain set so symbolic strings are not hashed; size/shape obligations are solver-enumerated.',
    tech='symbolic execution of lexeme-to-Python-token emitters (CrossHair+z3); solver-enumerated sizes checked by CPython compile()', ref='2 C11'),
 'C12': dict(
    text='CrossHair executes compile_program on clause ASTs whose goal name, atom text and functor name are symbolic strings (8 body shapes reaching every rewrite case) '
         'and checks slot discipline: nothing derived from the source text may sit in an unquoted slot of the code tree (variable/function names, called function, labels, '
         'raw values); the quoting slot (repr) is checked against ast.literal_eval over a finite alphabet of class representatives; SMT decides that no callable name\'s '
         'key is an API entry; a hostile corpus (quotes, newlines, Python syntax, dunder names in 7 syntactic positions; variables named like context names) is compiled, '
         'AST-whitelisted, loaded and queried natively.',
    note='repr route exhaustive only over the listed alphabet (length<=2); hostile compiled Python handed to load_script_* is outside.',
    tech='symbolic execution of the compiler with symbolic names + code-tree slot discipline (CrossHair+z3); SMT on keys; AST whitelist validation', ref='2 C12'),
 'C16': dict(
    text='CrossHair confirms unquoteString(quote(t)) == t for fully symbolic backslash-free text (len<=4, any Unicode); z3 decides from the STRING rule of prolog.g4 that '
         'every quoted form is a STRING lexeme and longest-match lexing consumes exactly it (unbounded); compiled literal facts (nested compounds, lists, [H|T], [], _, '
         'quoted atoms with quotes/newlines/non-ASCII) are matched against API-built terms with symbolic integer leaves and binding modes vs the reference unifier; '
         'to_python on decoded terms vs the reference mapping; atom interning and cross-engine unification with symbolic names.',
    note='Backslashes in atoms excluded by the statement; improper lists unspecified; literal family listed in evidence.',
    tech='symbolic execution of unquoting/to_python/literal matching (CrossHair+z3); z3 regular-expression reasoning on the grammar', ref='2 C16'),
 'C17': dict(
    text='CrossHair executes YP.evaluate_bounded with engine.sys stubbed: old and requested limit, number of answers, the index and kind of exception raised by the source '
         '(RecursionError/RuntimeError/private) and by the projection function symbolic: limit restored in every case, no RecursionError escapes, result is the prefix of '
         'projections, the suspended source is closed. On 6 compiled skeletons a user predicate raises RecursionError at a symbolic invocation and the projection at a '
         'symbolic answer: result is a prefix of the reference answers and every Variable created is unbound. On dynamic facts a foreign term raises RecursionError '
         'inside unify_arrays at a symbolic unification while an earlier argument\'s binding is suspended: same checks. Real low limits are validated natively.',
    note='The limit striking is modelled as RecursionError at a predicate invocation or at a nested term unification inside unify_arrays; strikes at other points of engine internals are outside the model.',
    tech='symbolic execution with stubbed interpreter limit and symbolic fault points (CrossHair+z3)', ref='2 C17'),
 'C18': dict(
    text='CrossHair executes the compiler back end on a clause pool while set/frozenset in the compiler modules are NondetSet (iteration order = permutation chosen by '
         'symbolic ints) and hash/id return symbolic ints: output must equal the identity-order output on every path; compiling P after any Q of the pool equals compiling '
         'P alone and leaves module-level containers unchanged; natively the pool and repository samples are compiled in subprocesses under different PYTHONHASHSEED.',
    note='Set displays/comprehensions are invisible to the name-level stub and are covered only by the native hash-seed run; ANTLR caches validated, not modelled.',
    tech='symbolic execution with nondeterministic set-order/hash stubs (CrossHair+z3); hash-seed subprocess replay', ref='2 C18'),
 'C19': dict(
    text='CrossHair executes the debug writers (compiler._debug, visitor._debug and constructor, generator header) on symbolic message parts and file name (<=3 chars, any '
         'Unicode): everything written is made of comment lines (no CR, no NUL, every line break followed by #); the 16 debug-flag combinations over a program pool leave '
         'the non-comment part unchanged and loadable; a native CLI matrix (CliRunner + subprocess) compares yldpc with the library for files/stdin, stdout/-o, one or two '
         'sources, failing sources, non-ASCII stdin.',
    note='Process-level behaviour (exit status, click parsing, byte decoding) is validated natively, not a solver claim.',
    tech='symbolic execution of debug writers on symbolic text (CrossHair+z3); enumerated flag/CLI matrix', ref='2 C19'),
 'C20': dict(
    text='CrossHair executes the same symbolic query on two engines - all fact predicates compiled vs a symbolic subset of {p, q} registered as Python generators with '
         'symbolic registration style (inferred/explicit/variadic) and a symbolic value for EVERY yield - over 9 caller skeletons (conjunction, cut before/after, '
         'if-then-else, negation, call/once/findall, disjunction, next to a dynamic fact): answer sequences equal on every path; with an exception injected at a symbolic '
         'invocation the same exception object reaches the consumer.',
    note='Fixed fact tables; caller family listed; query modes 0..2 in quick.',
    tech='differential symbolic execution (CrossHair+z3): compiled vs Python predicates with symbolic yields', ref='2 C20'),
 'C07': dict(
    text='Bounded symbolic execution of the real database operations (assert_fact, asserta/assertz/retract/retractall builtins, clear, '
         'query) as ONE step from an ARBITRARY state: p/1, q/2, f/0 filled with 0..2 (thorough 0..3) facts with symbolic integer arguments; '
         'the operation, its target (incl. a never-asserted predicate), the pattern (variable/constant/alias per argument), the goal form '
         '(direct or held in a bound variable), the abandonment point k and mode (close/drop) are symbolic; answers and the read-back of every '
         'predicate equal a list model on every path. Thorough adds two-step histories partitioned on the op pair.',
    note='One step from an arbitrary state covers histories inductively under the assumption that the store is a function of its contents '
         '(the aliasing exceptions are C14); asserted facts are ground here (C13 covers non-ground); bounded state size.',
    tech='symbolic execution of the fact-store operations (CrossHair+z3) vs list model, one inductive step', ref='2 C07'),
 'C13': dict(
    text='Bounded symbolic execution of assertz + fact look-up where the asserted term\'s variables are bound by real unify generators before '
         '(<=2) and after (<=1) the assertion in a symbolic order and shape, then the stored fact is used twice in a conjunction with symbolic '
         'patterns, inside or outside the asserting context; every answer (patterns, pattern variables, and the asserting clause\'s variables) '
         'equals the reference copy semantics (store the dereferenced term, fresh variables per use).',
    note='Bounded: 5 term templates, small binding/pattern alphabets (listed in evidence), one stored fact; refprolog is the oracle.',
    tech='symbolic execution of assert/match under symbolic binding histories (CrossHair+z3) vs reference copy semantics', ref='2 C13'),
 'C14': dict(
    text='Bounded symbolic execution of a symbolic schedule (length 4, thorough 5) interleaving steps of a suspended p(X) enumeration and a '
         'suspended retract(p(Y)) enumeration with asserta/assertz/retract-once/retractall on the same predicate (symbolic constants, 0..2 '
         'symbolic initial facts); every answer or exhaustion and the final contents equal a snapshot (logical update view) model.',
    note='Bounded schedule length and state size; an enumeration takes its snapshot at its first step; one enumeration of each kind.',
    tech='symbolic execution of interleaved generator schedules (CrossHair+z3) vs snapshot model', ref='2 C14'),
 'C15': dict(
    text='Bounded symbolic execution of get_value/to_python (and findall/3) on answer terms whose variables were bound by real unify generators '
         'in a symbolic ORDER and shape (<=3 bindings V_w = v|int|f(v|int) over 3 variables, outer-first, inner-first, chains); at the innermost '
         'point the Python value, the absence of live variables in the returned structure and its validity after backtracking equal a '
         'reference dereferencing.',
    note='Bounded: 5 answer templates, <=3 bindings, names concrete; cyclic-term cases skipped.',
    tech='symbolic execution of dereferencing under symbolic binding orders (CrossHair+z3) vs reference substitution', ref='2 C15'),
 'C01': dict(
    text='Bounded symbolic execution (CrossHair/z3) of YP.query over the Python that the current compiler generates for a listed '
         'family of 19 program skeletons (joins, repeated and nested head variables, 0-arity rules, anonymous variables, lists and '
         '[H|T], recursion also over dynamic facts of the same name, variable names reused across clauses, aliasing, predicates that never succeed, '
         '=, \\=, true, fail, compiled atom facts) plus solver-enumerated clause-head patterns (9 patterns x 6 bodies, compiled per path), with the dynamic fact base (count and all integer arguments) and '
         'the binding pattern and constants of every query argument symbolic; on every path the canonically renamed answer sequence '
         '(order, multiplicity, aliasing) equals that of an independent SLD interpreter. CONFIRMED = path tree exhausted.',
    note='Bounded: listed skeletons and head patterns, <=2 (quick) / <=3 (thorough) facts per dynamic predicate, answer cap; the ANTLR front end and the '
         'compiler run natively on concrete skeleton text; refprolog is the trusted oracle (validated against the repository tests).',
    tech='symbolic execution of compiled clauses through YP.query (CrossHair+z3) vs reference SLD interpreter', ref='2 C01'),
 'C05': dict(
    text='Bounded symbolic execution of the generated Python for clause bodies containing cut (all bodies with <=1 operator, seeded samples '
         'of larger ones, two spellings; thorough: all with <=2 operators) inside "t :- BODY. t :- e. top :- (t ; g), f.", with the solution '
         'count of every leaf-goal invocation symbolic (0..2 per goal and binding context); the answer sequence equals the reference '
         'interpreter with ISO cut scope on every path; also a second definition combined with overwrite=False (cut locality).',
    note='Bounded: body family, counts <=2, <=12 invocation contexts per run; leaf goals are stub predicates registered with register_function; '
         'front end and compiler run natively per body.',
    tech='symbolic execution of generated control code (CrossHair+z3) vs reference control semantics', ref='2 C05/C06'),
 'C06': dict(
    text='Same machinery as C05 over the cut-free bodies built from , ; -> \\+ true fail and calls: every body with <=1 operator in the minimally '
         'parenthesised spelling (relying on , < -> < ; right-associative) and the fully parenthesised one, plus seeded samples of larger bodies '
         '(thorough: all with <=2 operators); symbolic solution counts per invocation; answers equal the reference semantics on every path.',
    note='Bounded as C05; precedence/associativity is exercised through the real parser on the printed text of each tree (concrete text).',
    tech='symbolic execution of generated control code (CrossHair+z3) vs reference control semantics', ref='2 C05/C06'),
 'C02': dict(
    text='Bounded symbolic execution (CrossHair/z3) of engine.unify and all its callees on pairs of terms whose '
         'integer constants, atom names and functor names are solver variables and whose shapes (depth<=1, 3 variables, '
         'lists, same-name/different-arity compounds) are chosen by solver-enumerated codes, also under a held-open '
         'earlier unification; every path is compared with a reference most-general unifier (yield count, canonical '
         'bindings of both terms and every variable, symmetry, restored binding state). CONFIRMED = path tree exhausted.',
    note='Bounded: term depth, 3 variables, history length as listed in evidence; cyclic-term cases skipped as unspecified; '
         'CrossHair models CPython faithfully; z3 sound.',
    tech='symbolic execution of engine.unify with CrossHair+z3 vs reference MGU', ref='2 C02'),
}
NOT_YET = {}
def main():
    props = [json.loads(l) for l in open(os.path.join(ROOT, 'properties.jsonl'))]
    checks = []
    na = []
    for p in props:
        pid = p['id']
        if pid in CHECKS:
            c = CHECKS[pid]
            checks.append(dict(
                property_id=pid,
                quick_cmd='./vcheck %s --tier quick' % pid,
                thorough_cmd='./vcheck %s --tier thorough' % pid,
                evidence_file='evidence/%s.json' % pid,
                replay_cmd_template='./vcheck %s --replay {path}' % pid,
                engine='vcheck',
                level_claimed=dict(category='other', text=c['text'], design_ref='DESIGN.md section ' + c['ref']),
                level_note=c['note'], technique=c['tech']))
        else:
            na.append(dict(property_id=pid, reason=NOT_YET.get(pid, 'solver-based check not built yet in this revision of /verif (planned: DESIGN.md section 2)')))
    m = dict(
        version=1,
        setup_cmd='./setup.sh',
        hooks=dict(guard='YLDPROLOG_VERIF', enable='environment variable YLDPROLOG_VERIF=1 (set by ./vcheck); Python, nothing to rebuild',
                   baseline_off_cmd='cd /repo && env -u YLDPROLOG_VERIF /venv/bin/python -m pytest -ra -q -p no:cacheprovider --timeout=900 --continue-on-collection-errors',
                   source_commits=['b84c528'], add_only=True),
        engines=[dict(name='vcheck', path='vcheck', serves_properties=[c['property_id'] for c in checks],
                      kind_free_text='CrossHair 0.0.110 (symbolic execution of the real Python code, z3 5.1 per path) driven through its API by vlib/; direct z3/cvc5 queries for string-level obligations')],
        checks=checks,
        notes='All checks rebuild everything from /repo at run time (yldprolog is imported from /repo/src; compiled skeletons, grammar-derived lexers and SMT encodings are regenerated per run). Exit 0/1/3 = held / replayed violation / harness error.',
        not_applicable=na)
    json.dump(m, open(os.path.join(ROOT, 'MANIFEST.json'), 'w'), indent=1)
if __name__ == '__main__':
    main()
