#!/usr/bin/env python3
"""Regenerates MANIFEST.json from the table below (kept in one place so that it is always valid)."""
import json, os
ROOT = os.path.dirname(os.path.dirname(os.path.abspath(__file__)))
CHECKS = {
 'C07': dict(
    text='Bounded symbolic execution of the real database operations (assert_fact, asserta/assertz/retract/retractall builtins, clear, '
         'query) as ONE step from an ARBITRARY state: p/1, q/2, f/0 filled with 0..2 (thorough 0..3) facts with symbolic integer arguments; '
         'the operation, its target (incl. a never-asserted predicate), the pattern (variable/constant/alias per argument), the goal form '
         '(direct or held in a bound variable), the abandonment point k and mode (close/drop) are symbolic; answers and the read-back of every '
         'predicate equal a list model on every path. Thorough adds two-step histories partitioned on the op pair.',
    note='One step from an arbitrary state covers histories inductively under the assumption that the store is a function of its contents '
         '(the aliasing exceptions are C14); asserted facts are ground here (C13 covers non-ground); bounded state size.',
    tech='symbolic execution of the fact-store operations (CrossHair+z3) vs list model, one inductive step', ref='2 C07'),
 'C13': dict(
    text='Bounded symbolic execution of assertz + fact look-up where the asserted term\'s variables are bound by real unify generators before '
         '(<=2) and after (<=1) the assertion in a symbolic order and shape, then the stored fact is used twice in a conjunction with symbolic '
         'patterns, inside or outside the asserting context; every answer (patterns, pattern variables, and the asserting clause\'s variables) '
         'equals the reference copy semantics (store the dereferenced term, fresh variables per use).',
    note='Bounded: 5 term templates, small binding/pattern alphabets (listed in evidence), one stored fact; refprolog is the oracle.',
    tech='symbolic execution of assert/match under symbolic binding histories (CrossHair+z3) vs reference copy semantics', ref='2 C13'),
 'C14': dict(
    text='Bounded symbolic execution of a symbolic schedule (length 4, thorough 5) interleaving steps of a suspended p(X) enumeration and a '
         'suspended retract(p(Y)) enumeration with asserta/assertz/retract-once/retractall on the same predicate (symbolic constants, 0..2 '
         'symbolic initial facts); every answer or exhaustion and the final contents equal a snapshot (logical update view) model.',
    note='Bounded schedule length and state size; an enumeration takes its snapshot at its first step; one enumeration of each kind.',
    tech='symbolic execution of interleaved generator schedules (CrossHair+z3) vs snapshot model', ref='2 C14'),
 'C15': dict(
    text='Bounded symbolic execution of get_value/to_python (and findall/3) on answer terms whose variables were bound by real unify generators '
         'in a symbolic ORDER and shape (<=3 bindings V_w = v|int|f(v|int) over 3 variables, outer-first, inner-first, chains); at the innermost '
         'point the Python value, the absence of live variables in the returned structure and its validity after backtracking equal a '
         'reference dereferencing.',
    note='Bounded: 5 answer templates, <=3 bindings, names concrete; cyclic-term cases skipped.',
    tech='symbolic execution of dereferencing under symbolic binding orders (CrossHair+z3) vs reference substitution', ref='2 C15'),
 'C01': dict(
    text='Bounded symbolic execution (CrossHair/z3) of YP.query over the Python that the current compiler generates for a listed '
         'family of 14 program skeletons (joins, repeated and nested head variables, 0-arity rules, anonymous variables, lists and '
         '[H|T], recursion, =, \\=, true, fail, compiled atom facts), with the dynamic fact base (count and all integer arguments) and '
         'the binding pattern and constants of every query argument symbolic; on every path the canonically renamed answer sequence '
         '(order, multiplicity, aliasing) equals that of an independent SLD interpreter. CONFIRMED = path tree exhausted.',
    note='Bounded: listed skeletons, <=2 (quick) / <=3 (thorough) facts per dynamic predicate, answer cap; the ANTLR front end and the '
         'compiler run natively on concrete skeleton text; refprolog is the trusted oracle (validated against the repository tests).',
    tech='symbolic execution of compiled clauses through YP.query (CrossHair+z3) vs reference SLD interpreter', ref='2 C01'),
 'C05': dict(
    text='Bounded symbolic execution of the generated Python for clause bodies containing cut (all bodies with <=1 operator, seeded samples '
         'of larger ones, two spellings; thorough: all with <=2 operators) inside "t :- BODY. t :- e. top :- (t ; g), f.", with the solution '
         'count of every leaf-goal invocation symbolic (0..2 per goal and binding context); the answer sequence equals the reference '
         'interpreter with ISO cut scope on every path; also a second definition combined with overwrite=False (cut locality).',
    note='Bounded: body family, counts <=2, <=12 invocation contexts per run; leaf goals are stub predicates registered with register_function; '
         'front end and compiler run natively per body.',
    tech='symbolic execution of generated control code (CrossHair+z3) vs reference control semantics', ref='2 C05/C06'),
 'C06': dict(
    text='Same machinery as C05 over the cut-free bodies built from , ; -> \\+ true fail and calls: every body with <=1 operator in the minimally '
         'parenthesised spelling (relying on , < -> < ; right-associative) and the fully parenthesised one, plus seeded samples of larger bodies '
         '(thorough: all with <=2 operators); symbolic solution counts per invocation; answers equal the reference semantics on every path.',
    note='Bounded as C05; precedence/associativity is exercised through the real parser on the printed text of each tree (concrete text).',
    tech='symbolic execution of generated control code (CrossHair+z3) vs reference control semantics', ref='2 C05/C06'),
 'C02': dict(
    text='Bounded symbolic execution (CrossHair/z3) of engine.unify and all its callees on pairs of terms whose '
         'integer constants, atom names and functor names are solver variables and whose shapes (depth<=1, 3 variables, '
         'lists, same-name/different-arity compounds) are chosen by solver-enumerated codes, also under a held-open '
         'earlier unification; every path is compared with a reference most-general unifier (yield count, canonical '
         'bindings of both terms and every variable, symmetry, restored binding state). CONFIRMED = path tree exhausted.',
    note='Bounded: term depth, 3 variables, history length as listed in evidence; cyclic-term cases skipped as unspecified; '
         'CrossHair models CPython faithfully; z3 sound.',
    tech='symbolic execution of engine.unify with CrossHair+z3 vs reference MGU', ref='2 C02'),
}
NOT_YET = {}
def main():
    props = [json.loads(l) for l in open(os.path.join(ROOT, 'properties.jsonl'))]
    checks = []
    na = []
    for p in props:
        pid = p['id']
        if pid in CHECKS:
            c = CHECKS[pid]
            checks.append(dict(
                property_id=pid,
                quick_cmd='./vcheck %s --tier quick' % pid,
                thorough_cmd='./vcheck %s --tier thorough' % pid,
                evidence_file='evidence/%s.json' % pid,
                replay_cmd_template='./vcheck %s --replay {path}' % pid,
                engine='vcheck',
                level_claimed=dict(category='other', text=c['text'], design_ref='DESIGN.md section ' + c['ref']),
                level_note=c['note'], technique=c['tech']))
        else:
            na.append(dict(property_id=pid, reason=NOT_YET.get(pid, 'solver-based check not built yet in this revision of /verif (planned: DESIGN.md section 2)')))
    m = dict(
        version=1,
        setup_cmd='./setup.sh',
        hooks=dict(guard='YLDPROLOG_VERIF', enable='environment variable YLDPROLOG_VERIF=1 (set by ./vcheck); Python, nothing to rebuild',
                   baseline_off_cmd='cd /repo && env -u YLDPROLOG_VERIF /venv/bin/python -m pytest -ra -q -p no:cacheprovider --timeout=900 --continue-on-collection-errors',
                   source_commits=['b84c528'], add_only=True),
        engines=[dict(name='vcheck', path='vcheck', serves_properties=[c['property_id'] for c in checks],
                      kind_free_text='CrossHair 0.0.110 (symbolic execution of the real Python code, z3 5.1 per path) driven through its API by vlib/; direct z3/cvc5 queries for string-level obligations')],
        checks=checks,
        notes='All checks rebuild everything from /repo at run time (yldprolog is imported from /repo/src; compiled skeletons, grammar-derived lexers and SMT encodings are regenerated per run). Exit 0/1/3 = held / replayed violation / harness error.',
        not_applicable=na)
    json.dump(m, open(os.path.join(ROOT, 'MANIFEST.json'), 'w'), indent=1)
if __name__ == '__main__':
    main()
