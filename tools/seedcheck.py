#!/usr/bin/env python3
"""Confirm a seeded change and run the checks against it.
usage: seedcheck.py <seed id> <property> <patch file> <demo file> [--needs "..."] [--props C01,C05] [--tier quick]
 1. scratch worktree of /repo (under /tmp): apply the patch, run the 61 tests (must pass), run the demo (must fail);
    un-apply, run the demo (must pass); remove the worktree.
 2. apply the patch to /repo, run ./vcheck for the property (and any extra properties), undo the patch.
 3. store patch.diff, the demo and meta.json under /verif/seeded/<seed id>/.
"""
import argparse, json, os, shutil, subprocess, sys, time
ap = argparse.ArgumentParser()
ap.add_argument('seed'); ap.add_argument('prop'); ap.add_argument('patch'); ap.add_argument('demo')
ap.add_argument('--needs', default=''); ap.add_argument('--props', default=''); ap.add_argument('--tier', default='quick')
ap.add_argument('--what', default='')
a = ap.parse_args()
wt = '/tmp/sc_%s' % a.seed
def sh(cmd, **kw):
    return subprocess.run(cmd, shell=True, capture_output=True, text=True, **kw)
sh('git -C /repo worktree remove --force %s' % wt)
r = sh('git -C /repo worktree add -q %s HEAD' % wt); assert r.returncode == 0, r.stderr
meta = dict(seed=a.seed, property=a.prop, needs=a.needs, what=a.what, ran=[])
try:
    env = dict(os.environ, PYTHONPATH=wt + '/src'); env.pop('YLDPROLOG_VERIF', None)
    r = sh('git -C %s apply %s' % (wt, os.path.abspath(a.patch))); assert r.returncode == 0, 'patch does not apply: ' + r.stderr
    t = sh('cd %s && /venv/bin/python -m pytest -q -p no:cacheprovider 2>&1 | tail -1' % wt, env=env)
    meta['tests_with_change'] = t.stdout.strip()
    # demos written by sub-agents may hard-code their own worktree path: run a copy that points at the scratch worktree
    import re
    demo_src = open(a.demo).read()
    demo_src = re.sub(r'/tmp/wt_C\d+', wt, demo_src)
    demo_copy = os.path.join(wt, '_demo_under_test.py')
    open(demo_copy, 'w').write(demo_src)
    d1 = sh('cd %s && /venv/bin/python %s' % (wt, demo_copy), env=env, timeout=300)
    sh('git -C %s checkout -- .' % wt)
    d0 = sh('cd %s && /venv/bin/python %s' % (wt, demo_copy), env=env, timeout=300)
    meta['demo_with_change'] = dict(exit=d1.returncode, tail=d1.stdout.strip()[-300:])
    meta['demo_without_change'] = dict(exit=d0.returncode, tail=d0.stdout.strip()[-200:])
finally:
    sh('git -C /repo worktree remove --force %s' % wt)
ok = ('61 passed' in meta['tests_with_change']) and d1.returncode != 0 and d0.returncode == 0
meta['confirmed'] = ok
print('tests:', meta['tests_with_change'], '| demo with change exit', d1.returncode, '| without', d0.returncode, '| confirmed', ok)
if ok:
    assert sh('git -C /repo status --porcelain').stdout.strip() == '', '/repo is not clean'
    r = sh('git -C /repo apply %s' % os.path.abspath(a.patch)); assert r.returncode == 0, r.stderr
    try:
        for p in [a.prop] + [x for x in a.props.split(',') if x and x != a.prop]:
            t0 = time.time()
            c = sh('cd /verif && ./vcheck %s --tier %s' % (p, a.tier), timeout=3600)
            lines = [l for l in c.stdout.splitlines() if l.startswith('VIOLATION') or l.startswith(p + ' tier')]
            meta['ran'].append(dict(cmd='./vcheck %s --tier %s' % (p, a.tier), exit=c.returncode, wall_s=round(time.time() - t0),
                                    violations=len([l for l in lines if l.startswith('VIOLATION')]), summary=[l for l in lines if not l.startswith('VIOLATION')],
                                    first_counterexample=next((l.strip()[:400] for l in c.stdout.splitlines() if l.strip().startswith('counterexample')), None)))
            print(p, 'exit', c.returncode, 'violations', meta['ran'][-1]['violations'], meta['ran'][-1]['summary'])
    finally:
        sh('git -C /repo checkout -- .')
        assert sh('git -C /repo status --porcelain').stdout.strip() == ''
    meta['detected_by'] = [x['cmd'] for x in meta['ran'] if x['exit'] == 1]
out = '/verif/seeded/%s' % a.seed
os.makedirs(out, exist_ok=True)
shutil.copy(a.patch, out + '/patch.diff'); shutil.copy(a.demo, out + '/demo.py')
json.dump(meta, open(out + '/meta.json', 'w'), indent=1)
