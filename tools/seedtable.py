#!/usr/bin/env python3
"""prints the markdown table of seeded changes (from seeded/*/meta.json) for DESIGN.md section 9"""
import glob, json, os
rows = []
for f in sorted(glob.glob(os.path.join(os.path.dirname(os.path.dirname(os.path.abspath(__file__))), 'seeded', '*', 'meta.json'))):
    m = json.load(open(f))
    if not m.get('confirmed'):
        continue
    det = [r['cmd'].split()[1] for r in m.get('ran', []) if r['exit'] == 1]
    ran = [r['cmd'].split()[1] for r in m.get('ran', [])]
    missed = [p for p in ran if p not in det]
    rows.append('| %s | %s | %s | %s | %s |' % (m['seed'], m['property'], m.get('what', '').replace('|', '/'), m.get('needs', '').replace('|', '/'),
                                              ('caught by ' + ', '.join(det)) if det else ('NOT caught (ran ' + ', '.join(ran) + ')')
                                              + (('; not by ' + ', '.join(missed)) if det and missed else '')))
print('| seed | property | change | needs | quick checks |')
print('|---|---|---|---|---|')
print('\n'.join(rows))
