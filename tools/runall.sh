#!/bin/sh
# usage: tools/runall.sh quick|thorough [ids...]   - runs the checks one after the other, prints one summary line each
cd "$(dirname "$0")/.."
tier=${1:-quick}; shift
ids=${*:-C01 C02 C03 C04 C05 C06 C07 C08 C09 C10 C11 C12 C13 C14 C15 C16 C17 C18 C19 C20}
for p in $ids; do
  start=$(date +%s)
  timeout ${RUNALL_CAP:-3000} ./vcheck $p --tier $tier > /tmp/runall_${tier}_$p.log 2>&1; rc=$?
  end=$(date +%s)
  echo "$p rc=$rc $((end-start))s $(grep -E "^$p tier" /tmp/runall_${tier}_$p.log)"
  grep -E "inconclusive|harness_error|VIOLATION" /tmp/runall_${tier}_$p.log | head -4
done
