#!/usr/bin/env python3
"""prints, per property, the obligations as built (module docstring + bounds) for DESIGN.md section 8.6"""
import ast, glob, os
root = os.path.dirname(os.path.dirname(os.path.abspath(__file__)))
for f in sorted(glob.glob(os.path.join(root, 'obligations', 'C*.py'))):
    tree = ast.parse(open(f).read())
    doc = ast.get_docstring(tree) or ''
    bounds = {}
    for node in tree.body:
        if isinstance(node, ast.Assign) and getattr(node.targets[0], 'id', '') == 'BOUNDS':
            try:
                bounds = ast.literal_eval(node.value)
            except Exception:
                pass
    pid = os.path.basename(f)[:-3]
    print('#### %s\n' % pid)
    print(doc.strip() + '\n')
    for t in ('quick', 'thorough'):
        if t in bounds:
            print('* bounds (%s): %s' % (t, bounds[t]))
    print()
