import sys
from yldprolog import yp_generator as G
class Ctx:
    debug_filename=''; debug_parser=False; debug_generator=False; current_source_file=''; outf=None
KEYWORDS = ('False','None','True','and','as','assert','async','await','break','class','continue','def','del','elif','else','except','finally','for','from','global','if','import','in','is','lambda','nonlocal','not','or','pass','raise','return','try','while','with','yield')
def is_ident_start(c): return ('a' <= c <= 'z') or ('A' <= c <= 'Z') or c == '_'
def is_ident_char(c): return is_ident_start(c) or ('0' <= c <= '9')
def is_ascii_ident(s):
    if len(s) == 0 or not is_ident_start(s[0]): return False
    for c in s[1:]:
        if not is_ident_char(c): return False
    return s not in KEYWORDS
def def_header_ok(line, name, arity):
    """line must be exactly: def <ident>(<arg1,..>):  with ident == name_arity"""
    if not line.startswith('def '): return False
    rest = line[4:]
    k = rest.find('(')
    if k < 0: return False
    ident = rest[:k]
    if not is_ascii_ident(ident): return False
    if ident != name + '_' + str(arity): return False
    want = '(' + ','.join('arg%d' % (i+1) for i in range(arity)) + '):'
    return rest[k:] == want

def check_def(name: str) -> bool:
    """
    pre: 1 <= len(name) <= 3
    post: _
    """
    func = G.YPCodeFunction(name, ['arg1'], [G.YPCodeYieldFalse()])
    out = G.YPPythonCodeGenerator(Ctx).generate_function(func)
    first = out.split('\n')[0]
    return def_header_ok(first, name, 1)

def check_def_atomlang(name: str) -> bool:
    """
    pre: 1 <= len(name) <= 3
    post: _
    """
    # assume: name in L(ATOM) = [a-z_][A-Za-z0-9_]*   (what a fixed compiler would let through)
    if not (('a' <= name[0] <= 'z') or name[0] == '_'): return True
    for c in name[1:]:
        if not is_ident_char(c): return True
    func = G.YPCodeFunction(name, ['arg1'], [G.YPCodeYieldFalse()])
    out = G.YPPythonCodeGenerator(Ctx).generate_function(func)
    lines = out.split('\n')
    return def_header_ok(lines[0], name, 1) and lines[1] == '  doBreak = False'

def check_var(v: str) -> bool:
    """
    pre: 1 <= len(v) <= 4
    post: _
    """
    # assume v in L(VARIABLE) = [A-Z_][A-Za-z0-9_]*
    if not (('A' <= v[0] <= 'Z') or v[0] == '_'): return True
    for c in v[1:]:
        if not is_ident_char(c): return True
    if v == '_': return True
    line = G.YPPythonCodeGenerator(Ctx).generate_assign(G.YPCodeAssign(G.YPCodeVar(v), G.YPCodeCall('variable', [])))
    k = line.find(' = ')
    if k < 0: return False
    ident = line[:k]
    return is_ascii_ident(ident) and ident not in ('ATOM_NIL',) and line[k:] == ' = variable()'
