import sys
from yldprolog import yp_prolog_visitor as V
from yldprolog import yp_generator as G
class Ctx:
    debug_filename=''; debug_parser=False; debug_generator=False; current_source_file=''; outf=None
class Prog:
    def __init__(self, pairs): self.pairs = pairs
    def items(self): return self.pairs

def is_label(s):
    if len(s) < 6 or s[:5] != 'cutIf': return False
    return all(c in '0123456789' for c in s[5:])

def walk(code, bad):
    """slot discipline over the YPCode tree: labels must be generated names"""
    if isinstance(code, list):
        for c in code: walk(c, bad)
    elif isinstance(code, G.YPCodeProgram): walk(code.functions, bad)
    elif isinstance(code, G.YPCodeFunction): walk(list(code.body), bad)
    elif isinstance(code, G.YPCodeForeach): walk(code.loop_code, bad)
    elif isinstance(code, G.YPCodeBreakableBlock):
        if not is_label(code.label): bad.append(('label', code.label))
        walk(code.body, bad)
    elif isinstance(code, G.YPCodeBreakBlock):
        if not is_label(code.label): bad.append(('break', code.label))
    elif isinstance(code, G.YPCodeIf):
        walk(code.true_code, bad); walk(code.false_code, bad)

def check(goal: str, arg: str) -> bool:
    """
    pre: len(goal) <= 7 and len(arg) <= 2
    post: _
    """
    X = V.VariableTerm('X')
    body = V.ConjunctionPredicate(V.Predicate(V.Functor(V.Atom(goal), [V.Atom(arg)])), V.Predicate(V.Functor(V.Atom('q'), [X])))
    cl = V.Clause(V.Predicate(V.Functor(V.Atom('p'), [X])), body)
    code = G.YPPrologCompiler(Ctx).compile_program(Prog([(('p', 1), [cl])]))
    bad = []
    walk(code, bad)
    return not bad

def _install_str_stubs():
    for name in dir(V):
        cls = getattr(V, name)
        if isinstance(cls, type) and cls.__module__ == V.__name__ and '__str__' in cls.__dict__:
            cls.__str__ = lambda self: '<ast>'
            cls.__repr__ = lambda self: '<ast>'
_install_str_stubs()

class _Opaque:
    def __str__(self): return '<ast>'
    __repr__ = __str__
    def __format__(self, spec): return '<ast>'
_OPAQUE = _Opaque()
def _install_opaque():
    for name in dir(V):
        cls = getattr(V, name)
        if isinstance(cls, type) and cls.__module__ == V.__name__:
            cls.__ch_deep_realize__ = lambda self, memo: _OPAQUE
_install_opaque()
