import z3, time, subprocess, tempfile, os
n1, n2, d1, d2 = z3.Strings('n1 n2 d1 d2')
dec = z3.Union(z3.Re('0'), z3.Concat(z3.Range('1','9'), z3.Star(z3.Range('0','9'))))
def q2(bound):
    s = z3.Solver(); s.set('timeout', 30000)
    s.add(z3.InRe(d1, dec), z3.InRe(d2, dec))
    s.add(z3.Concat(n1, z3.StringVal('_'), d1) == z3.Concat(n2, z3.StringVal('_'), d2))
    s.add(z3.Or(n1 != n2, d1 != d2))
    if bound:
        for v in (n1, n2, d1, d2): s.add(z3.Length(v) <= bound)
    return s
def q3(bound):
    s = z3.Solver(); s.set('timeout', 30000)
    s.add(z3.InRe(d1, dec))
    s.add(z3.Concat(n1, z3.StringVal('_'), d1) == z3.Concat(n2, z3.StringVal('_n')))
    if bound:
        for v in (n1, n2, d1): s.add(z3.Length(v) <= bound)
    return s
for name, q in (('q2', q2), ('q3', q3)):
    for b in (6, 12, None):
        s = q(b); t = time.time(); r = s.check(); print(name, 'z3 bound', b, r, round(time.time()-t, 2), flush=True)
    smt = "(set-logic QF_SLIA)\n" + q(None).to_smt2().replace('(set-info :status unknown)', '')
    fn = tempfile.mktemp(suffix='.smt2'); open(fn, 'w').write(smt)
    for cmd in (['cvc5', '--strings-exp', '--tlimit=30000', fn],):
        t = time.time()
        try:
            out = subprocess.run(cmd, capture_output=True, text=True, timeout=40).stdout.strip()
        except Exception as e:
            out = 'ERR %s' % e
        print(name, ' '.join(cmd[:2]), out[:80], round(time.time()-t, 2), flush=True)
    import cvc5
    from cvc5.pythonic import *
    os.unlink(fn)
