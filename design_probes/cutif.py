from yldprolog.compiler import compile_prolog_from_string
from yldprolog.engine import YP
class Ctx:
    debug_filename=''; debug_parser=False; debug_generator=False; current_source_file=''; outf=None
src = "p(X) :- '$CUTIF'('HIT = query(\\'=\\',[X,atom(\\'pwned\\')]).__next__(); foo'), q(X).\n"
print(src)
out = compile_prolog_from_string(src, Ctx)
print(out)
yp = YP(); yp.load_script_from_string(out)
X = yp.variable()
print([X.to_python() for _ in yp.query('p', [X])])
