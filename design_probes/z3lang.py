import z3, time, keyword
from yldprolog.engine import YP
R = z3.Range; U = z3.Union; C = z3.Concat; S = z3.Star; L = z3.Re
lc = U(R('a','z'), L('_')); uc = R('A','Z'); dg = R('0','9'); ch = U(lc, uc, dg)
ATOM = C(lc, S(ch)); VARIABLE = C(U(uc, L('_')), S(ch)); NUMERAL = z3.Plus(dg)
pyident = C(U(R('a','z'), R('A','Z'), L('_')), S(U(R('a','z'), R('A','Z'), dg, L('_'))))
bad = list(keyword.kwlist) + ['__debug__'] + [k for k in YP().eval_context]
gen_names = U(C(L('arg'), z3.Plus(dg)), C(L('l'), z3.Plus(dg)), C(L('x'), z3.Plus(dg)), L('doBreak'), C(L('cutIf'), z3.Plus(dg)), L('_'))
pydec = U(z3.Plus(L('0')), C(R('1','9'), S(dg)))
def q(label, *cs):
    s = z3.Solver(); s.set('timeout', 20000); s.add(*cs); t = time.time(); r = s.check()
    print(label, r, round(time.time()-t, 3), s.model() if str(r) == 'sat' else '')
v = z3.String('v'); a = z3.String('a'); d = z3.String('d'); n = z3.String('n')
q('VARIABLE emitted verbatim is reserved/context name?', z3.InRe(v, VARIABLE), v != z3.StringVal('_'), z3.Or([v == z3.StringVal(b) for b in bad]))
q('VARIABLE collides with generator-internal name?', z3.InRe(v, VARIABLE), v != z3.StringVal('_'), z3.InRe(v, gen_names))
q('VARIABLE not a python identifier?', z3.InRe(v, VARIABLE), z3.Not(z3.InRe(v, pyident)))
q('ATOM_arity not identifier or keyword?', z3.InRe(a, ATOM), z3.InRe(n, U(L('0'), C(R('1','9'), S(dg)))), z3.Or(z3.Not(z3.InRe(C(a, L('_'), n) if False else z3.Concat(a, z3.StringVal('_'), n), pyident)), z3.Or([z3.Concat(a, z3.StringVal('_'), n) == z3.StringVal(b) for b in bad])))
q('NUMERAL emitted verbatim not a python decimal literal?', z3.InRe(d, NUMERAL), z3.Not(z3.InRe(d, pydec)))
