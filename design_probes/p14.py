from yldprolog import yp_generator as G
class Ctx:
    debug_filename=''; debug_parser=False; debug_generator=False; current_source_file=''; outf=None
def shape_def(name: str, n: int) -> bool:
    """
    pre: len(name) <= 8 and 0 <= n <= 3
    post: _
    """
    args = ['arg%d' % (i+1) for i in range(n)]
    func = G.YPCodeFunction(name, args, [G.YPCodeYieldFalse()])
    out = G.YPPythonCodeGenerator(Ctx).generate_function(func)
    want = 'def ' + name + '_' + str(n) + '(' + ','.join(args) + '):\n  doBreak = False\n  for _ in [1]:\n    yield False\n  if False:\n    yield False'
    return out == want
def shape_var(v: str) -> bool:
    """
    pre: len(v) <= 8
    post: _
    """
    g = G.YPPythonCodeGenerator(Ctx)
    return g.generate_assign(G.YPCodeAssign(G.YPCodeVar(v), G.YPCodeCall('variable', []))) == v + ' = variable()'
def shape_val(d: str) -> bool:
    """
    pre: len(d) <= 8
    post: _
    """
    g = G.YPPythonCodeGenerator(Ctx)
    return g.generate_call(G.YPCodeCall('atom', [G.YPCodeValue(d)])) == 'atom(' + d + ')'
