import io, contextlib, os
from typing import List
from yldprolog.engine import YP
from yldprolog.compiler import compile_prolog_from_string
class Ctx:
    debug_filename=''; debug_parser=False; debug_generator=False; current_source_file=''; outf=None

BODY = os.environ.get('BODY', '(a -> b ; c), d')
# reference AST given separately (independent of the compiler's parser)
import ast as _ast
REF = eval(os.environ.get('REF', "('and', ('ite', ('call','a'), ('call','b'), ('call','c')), ('call','d'))"))
SRC = "t :- %s.\nt :- e.\n" % BODY
CODE = compile_prolog_from_string(SRC, Ctx)
K = 2

class World:
    def __init__(self, counts):
        self.counts = counts; self.memo = {}; self.stack = []; self.next = 0; self.overflow = False
    def count(self, name):
        key = (name, tuple(self.stack))
        if key not in self.memo:
            if self.next >= len(self.counts):
                self.overflow = True
                return 0
            self.memo[key] = self.counts[self.next]; self.next += 1
        return self.memo[key]
    def leaf(self, name):
        n = self.count(name)
        j = 0
        while j < n:
            self.stack.append((name, j))
            try:
                yield False
            finally:
                self.stack.pop()
            j += 1

class Cell:
    cut = False

def ev(g, w, cell):
    k = g[0]
    if k == 'call':
        yield from w.leaf(g[1])
    elif k == 'true':
        yield
    elif k == 'fail':
        return
    elif k == 'cut':
        yield
        cell.cut = True
    elif k == 'and':
        for _ in ev(g[1], w, cell):
            yield from ev(g[2], w, cell)
            if cell.cut:
                return
    elif k == 'or':
        yield from ev(g[1], w, cell)
        if cell.cut:
            return
        yield from ev(g[2], w, cell)
    elif k == 'ite':
        found = False
        it = ev(g[1], w, Cell())
        for _ in it:
            found = True
            yield from ev(g[2], w, cell)
            break
        it.close()
        if not found and g[3] is not None:
            yield from ev(g[3], w, cell)
    elif k == 'not':
        found = False
        it = ev(g[1], w, Cell())
        for _ in it:
            found = True
            break
        it.close()
        if not found:
            yield

def ref_pred(w):
    # t :- BODY.  t :- e.
    cell = Cell()
    yield from ev(REF, w, cell)
    if cell.cut:
        return
    yield from ev(('call', 'e'), w, Cell())

def check(counts: List[int]) -> bool:
    """
    pre: len(counts) == 12
    pre: all(0 <= c <= 2 for c in counts)
    post: _
    """
    w = World(counts)
    yp = YP()
    yp.load_script_from_string(CODE, overwrite=False)
    for nm in 'abcde':
        yp.register_function(nm, (lambda nm: (lambda: w.leaf(nm)))(nm))
    got = []
    for _ in yp.query('t', []):
        got.append(tuple(w.stack))
    exp = []
    for _ in ref_pred(w):
        exp.append(tuple(w.stack))
    if w.overflow:
        return True
    return got == exp
