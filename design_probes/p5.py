import sys, traceback
import antlr_shim; antlr_shim.install()
from yldprolog.compiler import compile_prolog_from_string
from crosshair.tracers import NoTracing
class Ctx:
    debug_filename=''; debug_parser=False; debug_generator=False; current_source_file=''; outf=None
LOG=[]
def check(c: str) -> bool:
    """
    pre: len(c) == 1
    post: _
    """
    antlr_shim.reset_caches()
    try:
        out = compile_prolog_from_string("foo(a" + c + ").", Ctx)
    except TypeError as e:
        traceback.print_exc(limit=-6)
        return False
    except Exception as e:
        LOG.append('EXC %s' % type(e).__name__)
        return True
    LOG.append('OK')
    return "atom('a')" in out
import atexit
atexit.register(lambda: print(LOG, file=sys.stderr))
