import sys
from refp import Interp, resolve, Cyclic
from yldprolog.engine import YP, get_value, Variable, Atom, Functor
from yldprolog.compiler import compile_prolog_from_string
class Ctx:
    debug_filename=''; debug_parser=False; debug_generator=False; current_source_file=''; outf=None
SRC = """
r(X,Y) :- p(X,Z), q(Z,Y).
r(X,X) :- p(X,_).
r(X,f(Y,X)) :- q(Y,Y), X \\= Y.
"""
V = lambda n: ('v', n)
RULES = {('r', 2): [
  (('f','r',(V('X'),V('Y'))), ('and', ('call', ('f','p',(V('X'),V('Z')))), ('call', ('f','q',(V('Z'),V('Y')))))),
  (('f','r',(V('X'),V('X'))), ('call', ('f','p',(V('X'),V('_1'))))),
  (('f','r',(V('X'),('f','f',(V('Y'),V('X'))))), ('and', ('call', ('f','q',(V('Y'),V('Y')))), ('neq', V('X'), V('Y')))),
]}
CODE = compile_prolog_from_string(SRC, Ctx)

def show(t, names):
    t = get_value(t)
    if isinstance(t, Variable): return ('v', names.setdefault(id(t), len(names)))
    if isinstance(t, Atom): return ('a', t._name)
    if isinstance(t, Functor): return ('f', t._name, tuple(show(a, names) for a in t._args))
    return ('c', t)

def check(np: int, nq: int, p0: int, p1: int, p2: int, p3: int, p4: int, p5: int, q0: int, q1: int, q2: int, q3: int, m0: int, m1: int, a0: int, a1: int) -> int:
    """
    pre: 0 <= np <= 3 and 0 <= nq <= 2
    pre: 0 <= m0 <= 2 and 0 <= m1 <= 2
    post: _ != 2
    """
    pf = [(p0,p1),(p2,p3),(p4,p5)][:np]
    qf = [(q0,q1),(q2,q3)][:nq]
    yp = YP()
    yp.load_script_from_string(CODE, overwrite=False)
    for a,b in pf: yp.assert_fact(yp.atom('p'), [a,b])
    for a,b in qf: yp.assert_fact(yp.atom('q'), [a,b])
    # query args: mode 0 = fresh var, 1 = const, 2 = same var as arg0
    X0 = yp.variable(); X1 = yp.variable()
    A0 = X0 if m0 != 1 else a0
    A1 = (X1 if m1 == 0 else (a1 if m1 == 1 else A0))
    R0 = V('Q0') if m0 != 1 else ('c', a0)
    R1 = (V('Q1') if m1 == 0 else (('c', a1) if m1 == 1 else R0))
    it = Interp(RULES, {('p',2): [(('c',a),('c',b)) for a,b in pf], ('q',2): [(('c',a),('c',b)) for a,b in qf]})
    exp = []
    try:
        for s in it.solve(('call', ('f','r',(R0,R1))), {}):
            names = {}
            exp.append((resolve(R0, s, names), resolve(R1, s, names)))
            if len(exp) > 12: break
    except Cyclic:
        return 1
    got = []
    for _ in yp.query('r', [A0, A1]):
        names = {}
        got.append((show(A0, names), show(A1, names)))
        if len(got) > 12: break
    if got != exp:
        return 2
    if (X0._is_bound or X1._is_bound):
        return 2
    return 0 if len(got) >= 2 else 1
