import sys
import antlr4
from antlr4 import InputStream, CommonTokenStream
from antlr4.tree.Tree import TerminalNodeImpl
from yldprolog.prologLexer import prologLexer
from yldprolog.prologParser import prologParser
from yldprolog.yp_prolog_visitor import YPPrologVisitor
from yldprolog.yp_generator import YPPrologCompiler, YPPythonCodeGenerator
class Ctx:
    debug_filename=''; debug_parser=False; debug_generator=False; current_source_file=''; outf=None

def parse(src):
    lexer = prologLexer(InputStream(src))
    stream = CommonTokenStream(lexer)
    parser = prologParser(stream)
    tree = parser.program()
    stream.fill()
    return tree, stream.tokens

def backend(tree):
    program = YPPrologVisitor(Ctx).visit(tree)
    code = YPPrologCompiler(Ctx).compile_program(program)
    return YPPythonCodeGenerator(Ctx).generate(code)

TREE, TOKENS = parse("p(foo, 12, X) :- q('str', X).")
IDX = {t.text: t for t in TOKENS}

def py_unrepr(lit):
    """pure-python decoder of a python str literal as produced by repr(); returns None if malformed"""
    if len(lit) < 2: return None
    q = lit[0]
    if q not in "'\"" or lit[-1] != q: return None
    out = []; i = 1; n = len(lit) - 1
    while i < n:
        ch = lit[i]
        if ch == q: return None
        if ch == '\n': return None
        if ch == '\\':
            i += 1
            if i >= n: return None
            e = lit[i]
            if e == 'n': out.append('\n')
            elif e == 't': out.append('\t')
            elif e == 'r': out.append('\r')
            elif e == '\\': out.append('\\')
            elif e == "'": out.append("'")
            elif e == '"': out.append('"')
            elif e == 'x':
                out.append(chr(int(lit[i+1:i+3], 16))); i += 2
            elif e == 'u':
                out.append(chr(int(lit[i+1:i+5], 16))); i += 4
            elif e == 'U':
                out.append(chr(int(lit[i+1:i+9], 16))); i += 8
            else: return None
        else:
            out.append(ch)
        i += 1
    return ''.join(out)

def check_atom(s: str) -> bool:
    """
    pre: len(s) <= 2
    post: _
    """
    tok = IDX["'str'"]
    old = tok.text
    tok.text = "'" + s + "'"     # STRING token text (assume s has no quote/backslash)
    if "'" in s or "\\" in s:
        tok.text = old
        return True
    try:
        out = backend(TREE)
    finally:
        tok.text = old
    # find the emitted literal: atom(<lit>)
    marker = "query('q',[atom("
    k = out.find(marker)
    if k < 0:
        return False
    rest = out[k+len(marker):]
    end = rest.find("),X]")
    if end < 0:
        return False
    lit = rest[:end]
    return py_unrepr(lit) == s
