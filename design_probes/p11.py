import sys, weakref
from yldprolog import engine as E
from yldprolog.engine import YP, get_value

REG = weakref.WeakSet()
_oi = E.Variable.__init__
def _init(self):
    _oi(self); REG.add(self)
E.Variable.__init__ = _init

def model_step(db, op, c, isvar, k):
    """list model. returns (answers, newdb). db: list of ints"""
    if op == 0:   # assertz
        return [()], db + [c]
    if op == 1:   # asserta
        return [()], [c] + db
    if op == 2:   # query p(pat), abandon after k answers
        ans = [x for x in db if isvar or x == c]
        return ans[:k], db
    if op == 3:   # retract(p(pat)), abandon after k answers
        ans = []; new = list(db)
        i = 0
        while i < len(new) and len(ans) < k:
            if isvar or new[i] == c:
                ans.append(new[i]); del new[i]
            else:
                i += 1
        return ans, new
    if op == 4:   # retractall
        return [()], [x for x in db if not (isvar or x == c)]
    return [], db

def real_step(yp, op, c, isvar, k, mode):
    X = yp.variable()
    pat = X if isvar else c
    if op == 0:
        r = [() for _ in yp.query('assertz', [yp.functor('p', [c])])]
        return r
    if op == 1:
        r = [() for _ in yp.query('asserta', [yp.functor('p', [c])])]
        return r
    if op in (2, 3):
        q = yp.query('p', [pat]) if op == 2 else yp.query('retract', [yp.functor('p', [pat])])
        ans = []
        if k > 0:
            for _ in q:
                ans.append(get_value(pat))
                if len(ans) >= k:
                    break
        if mode == 0: q.close()
        else: del q
        return ans
    if op == 4:
        return [() for _ in yp.query('retractall', [yp.functor('p', [pat])])]
    return []

def contents(yp):
    X = yp.variable()
    return [get_value(X) for _ in yp.query('p', [X])]

def check(n: int, d0: int, d1: int, d2: int, op1: int, c1: int, v1: bool, k1: int, m1: int, op2: int, c2: int, v2: bool, k2: int, m2: int) -> int:
    """
    pre: 1 <= n <= 3 and 0 <= op1 <= 4 and 0 <= op2 <= 4 and 0 <= k1 <= 3 and 0 <= k2 <= 3 and 0 <= m1 <= 1 and 0 <= m2 <= 1
    post: _ != 2
    """
    db = [d0, d1, d2][:n]
    yp = YP()
    for x in db:
        yp.assert_fact(yp.atom('p'), [x])
    for (op, c, v, k, m) in ((op1, c1, v1, k1, m1), (op2, c2, v2, k2, m2)):
        exp, db = model_step(db, op, c, v, k)
        got = real_step(yp, op, c, v, k, m)
        if got != exp:
            return 2
        if contents(yp) != db:
            return 2
        for var in list(REG):
            if var._is_bound:
                return 2
    return 0
