import os, sys, io, contextlib
from yldprolog.engine import YP
from yldprolog.compiler import compile_prolog_from_string
class Ctx:
    debug_filename=''; debug_parser=False; debug_generator=False; current_source_file=''; outf=None
BODY = os.environ['BODY']; REF = eval(os.environ['REF'])
SRC = "t :- %s.\nt :- e.\ntop :- (t ; g), f.\n" % BODY
_err = io.StringIO()
try:
    with contextlib.redirect_stderr(_err):
        CODE = compile_prolog_from_string(SRC, Ctx)
    compile(CODE, 'gen', 'exec')
    COMPILE_ERR = None
except BaseException as e:
    COMPILE_ERR = '%s: %s' % (type(e).__name__, str(e)[:80])
    CODE = ''
if _err.getvalue(): COMPILE_ERR = (COMPILE_ERR or '') + ' ANTLR-STDERR: ' + _err.getvalue()[:80]
K = 2
class World:
    def __init__(self, counts):
        self.counts = counts; self.memo = {}; self.stack = []; self.next = 0; self.overflow = False
    def count(self, name):
        if name in 'efg': return 1
        key = (name, tuple(self.stack))
        if key not in self.memo:
            if self.next >= len(self.counts):
                self.overflow = True; return 0
            self.memo[key] = self.counts[self.next]; self.next += 1
        return self.memo[key]
    def leaf(self, name):
        n = self.count(name); j = 0
        while j < n:
            self.stack.append((name, j))
            try: yield False
            finally: self.stack.pop()
            j += 1
class Cell: cut = False
def ev(g, w, cell):
    k = g[0]
    if k == 'call': yield from w.leaf(g[1])
    elif k == 'true': yield
    elif k == 'fail': return
    elif k == 'cut':
        yield
        cell.cut = True
    elif k == 'and':
        for _ in ev(g[1], w, cell):
            yield from ev(g[2], w, cell)
            if cell.cut: return
    elif k == 'or':
        yield from ev(g[1], w, cell)
        if cell.cut: return
        yield from ev(g[2], w, cell)
    elif k in ('ite', 'it'):
        found = False
        it = ev(g[1], w, Cell())
        for _ in it:
            found = True
            yield from ev(g[2], w, cell)
            break
        it.close()
        if not found and k == 'ite':
            yield from ev(g[3], w, cell)
    elif k == 'not':
        found = False
        it = ev(g[1], w, Cell())
        for _ in it:
            found = True; break
        it.close()
        if not found: yield
def ref_t(w):
    cell = Cell()
    yield from ev(REF, w, cell)
    if cell.cut: return
    yield from w.leaf('e')
def ref_top(w):
    for _ in ref_t(w):
        yield from w.leaf('f')
    for _ in w.leaf('g'):
        yield from w.leaf('f')
N = 12
args = ", ".join(f"c{i}: int" for i in range(N))
pre = " and ".join(f"0 <= c{i} <= {K}" for i in range(N))
src = f'''
def check({args}) -> int:
    """
    pre: {pre}
    post: _ != 2
    """
    w = World([{", ".join(f"c{i}" for i in range(N))}])
    yp = YP()
    yp.load_script_from_string(CODE, overwrite=False)
    for nm in 'abcdefgwxyz':
        yp.register_function(nm, (lambda nm: (lambda: w.leaf(nm)))(nm))
    got = []
    for _ in yp.query('top', []):
        got.append(tuple(w.stack))
        if len(got) > 40: break
    exp = []
    for _ in ref_top(w):
        exp.append(tuple(w.stack))
        if len(exp) > 40: break
    if w.overflow: return 1
    return 0 if got == exp else 2
'''
open('/tmp/probe/p12_gen_%d.py' % os.getpid(), 'w').write("from p12 import *\n" + src)
sys.path.insert(0, '/tmp/probe')
check = __import__('p12_gen_%d' % os.getpid()).check
import atexit; atexit.register(lambda p='/tmp/probe/p12_gen_%d.py' % os.getpid(): os.path.exists(p) and os.unlink(p))
