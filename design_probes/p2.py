from typing import List, Tuple
from yldprolog.engine import YP, unify, get_value, Variable, Atom, Functor, to_python

# reference terms: ('v',i) ('c',int) ('a',name) ('f',name,args)
def build(yp, vars, codes, ints, pos, depth):
    c = codes[pos[0]]; pos[0] += 1
    if c == 0:
        return vars[0], ('v', 0)
    if c == 1:
        return vars[1], ('v', 1)
    if c == 2:
        k = ints[pos[0]-1]
        return k, ('c', k)
    if c == 3:
        return yp.atom('a'), ('a', 'a')
    if depth == 0:
        return yp.atom('b'), ('a', 'b')
    if c == 4:
        x, rx = build(yp, vars, codes, ints, pos, depth-1)
        return yp.functor('f', [x]), ('f', 'f', (rx,))
    x, rx = build(yp, vars, codes, ints, pos, depth-1)
    y, ry = build(yp, vars, codes, ints, pos, depth-1)
    return yp.functor('g', [x, y]), ('f', 'g', (rx, ry))

def walk(t, s):
    while t[0] == 'v' and t[1] in s:
        t = s[t[1]]
    return t
def occurs(i, t, s):
    t = walk(t, s)
    if t[0] == 'v':
        return t[1] == i
    if t[0] == 'f':
        return any(occurs(i, a, s) for a in t[2])
    return False
class Cyclic(Exception): pass
def runify(a, b, s):
    a = walk(a, s); b = walk(b, s)
    if a[0] == 'v':
        if b[0] == 'v' and b[1] == a[1]:
            return s
        if occurs(a[1], b, s):
            raise Cyclic()
        s = dict(s); s[a[1]] = b; return s
    if b[0] == 'v':
        return runify(b, a, s)
    if a[0] != b[0]:
        return None
    if a[0] in ('c', 'a'):
        return s if a[1] == b[1] else None
    if a[1] != b[1] or len(a[2]) != len(b[2]):
        return None
    for x, y in zip(a[2], b[2]):
        s = runify(x, y, s)
        if s is None:
            return None
    return s
def resolve(t, s, names):
    t = walk(t, s)
    if t[0] == 'v':
        return ('v', names.setdefault(t[1], len(names)))
    if t[0] == 'f':
        return ('f', t[1], tuple(resolve(a, s, names) for a in t[2]))
    return t

def show(t, names):
    t = get_value(t)
    if isinstance(t, Variable):
        return ('v', names.setdefault(id(t), len(names)))
    if isinstance(t, Atom):
        return ('a', t._name)
    if isinstance(t, Functor):
        return ('f', t._name, tuple(show(a, names) for a in t._args))
    return ('c', t)

def check_sym(codes: List[int], ints: List[int]) -> bool:
    """
    pre: len(codes) == 6 and len(ints) == 6
    pre: all(0 <= c <= 5 for c in codes)
    post: _
    """
    yp = YP()
    vs = [yp.variable(), yp.variable()]
    pos = [0]
    t1, r1 = build(yp, vs, codes, ints, pos, 1)
    t2, r2 = build(yp, vs, codes, ints, pos, 1)
    try:
        s = runify(r1, r2, {})
    except Cyclic:
        return True
    n1 = 0; o1 = None
    for _ in unify(t1, t2):
        n1 += 1
        names = {}
        o1 = (show(t1, names), show(t2, names), show(vs[0], names), show(vs[1], names))
    n2 = 0; o2 = None
    for _ in unify(t2, t1):
        n2 += 1
        names = {}
        o2 = (show(t1, names), show(t2, names), show(vs[0], names), show(vs[1], names))
    if n1 != n2 or n1 > 1:
        return False
    if (s is None) != (n1 == 0):
        return False
    if s is not None:
        names = {}
        exp = (resolve(r1, s, names), resolve(r2, s, names), resolve(('v',0), s, names), resolve(('v',1), s, names))
        if o1 != exp or o2 != exp:
            return False
    return all(get_value(v) is v for v in vs)
