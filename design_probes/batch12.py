import sys, os, subprocess, json, random, time
from concurrent.futures import ThreadPoolExecutor
from bodies import all_bodies, txt, full, trees, name_calls
random.seed(1)
b01 = all_bodies(1)
b2 = [name_calls(t, [0]) for t in trees(2)]
sample2 = random.sample(b2, int(sys.argv[1]) if len(sys.argv) > 1 else 120)
jobs = []
for b in b01: jobs.append((b, txt(b))); 
for b in b01[4:]: jobs.append((b, full(b)))
for b in sample2: jobs.append((b, txt(b)))
DRV = r'''
import sys, time, collections
sys.path.insert(0, '/tmp/probe')
import p12
if p12.COMPILE_ERR:
    print('COMPILE_ERR', p12.COMPILE_ERR); sys.exit(0)
from crosshair.core_and_libs import analyze_function, run_checkables
from crosshair.options import AnalysisOptionSet, AnalysisKind
opts = AnalysisOptionSet(per_condition_timeout=150, report_all=True, analysis_kind=[AnalysisKind.PEP316], max_uninteresting_iterations=sys.maxsize, stats=collections.Counter())
msgs = run_checkables(analyze_function(p12.check, opts))
for m in msgs: print(m.state.name, m.message[:200].replace('\n',' '), 'paths', opts.stats['num_paths'])
'''
def run(job):
    b, text = job
    env = dict(os.environ, BODY=text, REF=repr(b))
    t0 = time.time()
    try:
        p = subprocess.run(['/tmp/probe/pv/bin/python', '-c', DRV], env=env, capture_output=True, text=True, timeout=240)
        out = (p.stdout.strip().splitlines() or ['NOOUT ' + p.stderr.strip()[-200:]])[-1]
    except subprocess.TimeoutExpired:
        out = 'TIMEOUT'
    return text, out, round(time.time() - t0, 1)
t0 = time.time()
res = collections = None
with ThreadPoolExecutor(16) as ex:
    res = list(ex.map(run, jobs))
import collections
c = collections.Counter(r[1].split()[0] for r in res)
print('jobs', len(jobs), 'wall', round(time.time() - t0), dict(c))
for text, out, dt in res:
    if not out.startswith('CONFIRMED') and not out.startswith('NOOUT'):
        print('%-40s %s (%ss)' % (text, out[:170], dt))
print('median time confirmed', sorted(r[2] for r in res if r[1].startswith('CONFIRMED'))[:1], 'max', max([r[2] for r in res if r[1].startswith('CONFIRMED')] or [0]), 'sum', sum(r[2] for r in res))
