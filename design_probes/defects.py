import sys, traceback, io, contextlib
from yldprolog.engine import YP, to_python, unify, get_value
from yldprolog.compiler import compile_prolog_from_string
class Ctx:
    debug_filename=''; debug_parser=False; debug_generator=False; current_source_file=''; outf=None
def comp(src):
    err = io.StringIO()
    with contextlib.redirect_stderr(err):
        return compile_prolog_from_string(src, Ctx)
def run(src, name, nargs, limit=10):
    yp = YP(); yp.load_script_from_string(comp(src), overwrite=False)
    vs = [yp.variable() for _ in range(nargs)]
    out=[]
    for _ in yp.query(name, vs):
        out.append([to_python(v) for v in vs])
        if len(out)>=limit: break
    return out
def t(label, f):
    try:
        print(label, '->', f())
    except BaseException as e:
        print(label, '-> RAISES', type(e).__name__, str(e)[:100])
t('C01 p:-q,fail', lambda: run('q. p :- q, fail.', 'p', 0))
t('C01 p:-fail', lambda: run('p :- fail.', 'p', 0))
t('C07 retract(flag)', lambda: run('t :- assertz(flag), retract(flag).', 't', 0))
t('C07 retractall unknown', lambda: run('t :- retractall(p(_)).', 't', 0))
t('C07 retract(G) bound', lambda: run('t :- assertz(p(1)), G = p(1), retract(G).', 't', 0))
t('C07 assertz(G) bound', lambda: run('t(X) :- G = p(1), assertz(G), p(X).', 't', 1))
t('C09 call(G)', lambda: run('foo(1). t(X) :- G = foo(X), call(G).', 't', 1))
t('C09 findall atom', lambda: run('p. t(L) :- findall(x, p, L).', 't', 1))
t('C09 once fail', lambda: run('t :- once(nope(1)).', 't', 0))
t('C10 ,,', lambda: comp('a(X) :- b(X),, c(X).')[-200:])
t('C10 trailing', lambda: comp('foo(a). ) garbage')[-100:])
t('C10 unterminated', lambda: comp("foo(a). 'unterminated ...")[-100:])
t('C11 01', lambda: run('foo(01).', 'foo', 1))
t('C11 True', lambda: run('bar(1). foo(True) :- bar(True).', 'foo', 1))
t('C11 quoted', lambda: run("'hello world'(a).", 'hello world', 1))
t('C11 20 goals', lambda: run('q. p :- ' + ','.join(['q']*21) + '.', 'p', 0))
t('C12 ATOM_NIL', lambda: run('p(ATOM_NIL, []).', 'p', 2))
t('C12 inject', lambda: comp("'x_0():\n  pass\nimport os\ndef y'(a).")[-200:])
t('C13 deep', lambda: run('s :- X = f(Y), Y = a, assertz(p(X)). t(Z) :- s, p(f(b)), Z = matched.', 't', 1))
t('C13 shared', lambda: run('t :- assertz(p(_)), p(a), p(b).', 't', 0))
t('C14 grow', lambda: run('t(X) :- assertz(p(1)), p(X), assertz(p(2)).', 't', 1, limit=6))
t('C15 findall', lambda: run('p(X) :- X = g(Y), Y = 1. t(L) :- findall(X, p(X), L).', 't', 1))
