import sys
from yldprolog import yp_generator as G, yp_prolog_visitor as V, engine as E
class Ctx:
    debug_filename=''; debug_parser=True; debug_generator=True; current_source_file=''; outf=None

class Rec:
    def __init__(self): self.parts=[]
    def write(self, s): self.parts.append(s)

# --- C19: debug lines are comments, symbolic message
def check_debug(msg: str) -> bool:
    """
    pre: len(msg) <= 3
    post: _
    """
    rec = Rec()
    class C(Ctx): outf = rec
    comp = G.YPPrologCompiler(C)
    comp._debug('x', msg)
    text = ''.join(rec.parts)
    if not text.endswith('\n'):
        return False
    for line in text[:-1].split('\n'):
        if not line.startswith('#'):
            return False
    return True

# --- C18: set iteration order as a symbolic permutation
class NondetSet:
    choices = None
    def __init__(self, it=()):
        self.items = []
        for x in it:
            if x not in self.items: self.items.append(x)
    def __iter__(self):
        rest = list(self.items)
        while rest:
            k = NondetSet.choices.pop() if NondetSet.choices else 0
            i = 0
            while i < len(rest) - 1 and i != k:   # symbolic index -> concrete position
                i += 1
            yield rest.pop(i)
def gen(prog):
    code = G.YPPrologCompiler(Ctx0).compile_program(prog)
    return G.YPPythonCodeGenerator(Ctx0).generate(code)
class Ctx0:
    debug_filename=''; debug_parser=False; debug_generator=False; current_source_file=''; outf=None
def mkprog():
    X, Y, Z = V.VariableTerm('X'), V.VariableTerm('Y'), V.VariableTerm('Z')
    cl = V.Clause(V.Predicate(V.Functor(V.Atom('p'), [X])), V.ConjunctionPredicate(V.Predicate(V.Functor(V.Atom('q'), [X, Y])), V.Predicate(V.Functor(V.Atom('r'), [Y, Z]))))
    return {('p', 1): [cl]}
def check_perm(k0: int, k1: int, k2: int) -> bool:
    """
    pre: 0 <= k0 <= 2 and 0 <= k1 <= 2 and 0 <= k2 <= 2
    post: _
    """
    old = G.__dict__.get('set')
    try:
        G.set = NondetSet
        NondetSet.choices = []
        base = gen(mkprog())
        NondetSet.choices = [k2, k1, k0]
        other = gen(mkprog())
    finally:
        if old is None: del G.set
        else: G.set = old
    return base == other

# --- C17: evaluate_bounded restores the limit; sys is an environment stub
class SysStub:
    def __init__(self, old): self.limit = old; self.log = []
    def getrecursionlimit(self): return self.limit
    def setrecursionlimit(self, n): self.limit = n; self.log.append(n)
class Boom(Exception): pass
def check_eb(old: int, new: int, nans: int, k: int, j: int, kind: int) -> bool:
    """
    pre: 0 <= nans <= 3 and 0 <= k <= 4 and 0 <= j <= 4 and 0 <= kind <= 2
    post: _
    """
    real = E.sys
    stub = SysStub(old)
    E.sys = stub
    try:
        yp = E.YP()
        def src():
            i = 0
            while i < nans:
                if i == j:
                    if kind == 0: raise RecursionError('deep')
                    if kind == 1: raise RuntimeError('other')
                yield False
                i += 1
        seen = []
        def proj(x):
            if len(seen) == k: raise Boom()
            seen.append(len(seen)); return seen[-1]
        try:
            r = yp.evaluate_bounded(src(), proj, new)
        except Boom:
            r = None
        except RecursionError:
            return False
    finally:
        E.sys = real
    if stub.limit != old: return False
    if r is not None:
        if r != list(range(len(r))): return False
    return True
