"""CrossHair compatibility shim for the antlr4 runtime (harness side only)."""
import sys, pkgutil, importlib, inspect
import antlr4
from crosshair.core import realize
from crosshair.tracers import NoTracing
def _wrap_hash(cls):
    orig = cls.__dict__['__hash__']
    if orig is None or getattr(orig, '_shim', False):
        return
    def h(self, _orig=orig):
        return realize(_orig(self))
    h._shim = True
    cls.__hash__ = h
def install():
    for m in list(pkgutil.walk_packages(antlr4.__path__, 'antlr4.')):
        try:
            mod = importlib.import_module(m.name)
        except Exception:
            continue
        for _, cls in inspect.getmembers(mod, inspect.isclass):
            if cls.__module__.startswith('antlr4') and '__hash__' in cls.__dict__:
                _wrap_hash(cls)
def reset_caches():
    from antlr4.dfa.DFA import DFA
    from yldprolog.prologLexer import prologLexer
    from yldprolog.prologParser import prologParser
    for k in (prologLexer, prologParser):
        k.decisionsToDFA = [DFA(ds, i) for i, ds in enumerate(k.atn.decisionToState)]
