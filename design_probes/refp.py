"""Minimal independent SLD interpreter over plain tuples (probe version).
terms: ('v', id) | ('c', pyconst) | ('a', name) | ('f', name, (args...))
clauses: (head_term, body)  body: ('call', term) | ('and',a,b) | ('true',) | ('fail',) | ('eq',t1,t2) | ('neq',t1,t2)
"""
import itertools
class Cyclic(Exception): pass
def walk(t, s):
    while t[0] == 'v' and t[1] in s:
        t = s[t[1]]
    return t
def occurs(i, t, s):
    t = walk(t, s)
    if t[0] == 'v': return t[1] == i
    if t[0] == 'f': return any(occurs(i, a, s) for a in t[2])
    return False
def unify(a, b, s):
    a = walk(a, s); b = walk(b, s)
    if a[0] == 'v':
        if b[0] == 'v' and b[1] == a[1]: return s
        if occurs(a[1], b, s): raise Cyclic()
        s = dict(s); s[a[1]] = b; return s
    if b[0] == 'v':
        if occurs(b[1], a, s): raise Cyclic()
        s = dict(s); s[b[1]] = a; return s
    if a[0] != b[0]: return None
    if a[0] in ('c', 'a'):
        return s if a[1] == b[1] else None
    if a[1] != b[1] or len(a[2]) != len(b[2]): return None
    for x, y in zip(a[2], b[2]):
        s = unify(x, y, s)
        if s is None: return None
    return s
def rename(t, m, fresh):
    if t[0] == 'v':
        if t[1] not in m: m[t[1]] = ('v', next(fresh))
        return m[t[1]]
    if t[0] == 'f':
        return ('f', t[1], tuple(rename(a, m, fresh) for a in t[2]))
    return t
def rename_body(b, m, fresh):
    k = b[0]
    if k == 'call': return ('call', rename(b[1], m, fresh))
    if k in ('eq', 'neq'): return (k, rename(b[1], m, fresh), rename(b[2], m, fresh))
    if k == 'and': return ('and', rename_body(b[1], m, fresh), rename_body(b[2], m, fresh))
    return b
def resolve(t, s, names):
    t = walk(t, s)
    if t[0] == 'v': return ('v', names.setdefault(t[1], len(names)))
    if t[0] == 'f': return ('f', t[1], tuple(resolve(a, s, names) for a in t[2]))
    return t
class Interp:
    def __init__(self, rules, facts):
        self.rules = rules   # dict (name, arity) -> [ (head, body) ]
        self.facts = facts   # dict (name, arity) -> [ args tuple ]
        self.fresh = itertools.count(1000)
    def solve(self, g, s):
        k = g[0]
        if k == 'true': yield s
        elif k == 'fail': return
        elif k == 'and':
            for s1 in self.solve(g[1], s):
                yield from self.solve(g[2], s1)
        elif k == 'eq':
            s1 = unify(g[1], g[2], s)
            if s1 is not None: yield s1
        elif k == 'neq':
            if unify(g[1], g[2], s) is None: yield s
        elif k == 'call':
            t = walk(g[1], s)
            name, args = (t[1], ()) if t[0] == 'a' else (t[1], t[2])
            key = (name, len(args))
            for fargs in self.facts.get(key, []):
                m = {}
                fr = tuple(rename(a, m, self.fresh) for a in fargs)
                s1 = s
                for x, y in zip(args, fr):
                    s1 = unify(x, y, s1)
                    if s1 is None: break
                if s1 is not None: yield s1
            for head, body in self.rules.get(key, []):
                m = {}
                h = rename(head, m, self.fresh); b = rename_body(body, m, self.fresh)
                s1 = s
                for x, y in zip(args, h[2] if h[0] == 'f' else ()):
                    s1 = unify(x, y, s1)
                    if s1 is None: break
                if s1 is not None:
                    yield from self.solve(b, s1)
