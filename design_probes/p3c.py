from p3 import *
N = 12
args = ", ".join(f"c{i}: int" for i in range(N))
pre = " and ".join(f"0 <= c{i} <= 2" for i in range(N))
src = f'''
def check3({args}) -> bool:
    """
    pre: {pre}
    post: _
    """
    counts = [{", ".join(f"c{i}" for i in range(N))}]
    w = World(counts)
    yp = YP()
    yp.load_script_from_string(CODE, overwrite=False)
    for nm in 'abcde':
        yp.register_function(nm, (lambda nm: (lambda: w.leaf(nm)))(nm))
    got = []
    for _ in yp.query('t', []):
        got.append(tuple(w.stack))
    exp = []
    for _ in ref_pred(w):
        exp.append(tuple(w.stack))
    if w.overflow:
        return True
    return got == exp
'''
import linecache
fn = '/tmp/probe/p3c_gen.py'
open(fn, 'w').write("from p3 import *\n" + src)
from p3c_gen import check3
