import sys, time, importlib, os
from crosshair.core_and_libs import analyze_function, run_checkables
from crosshair.options import AnalysisOptionSet, DEFAULT_OPTIONS, AnalysisKind
from crosshair.statespace import MessageType
modname, fname = sys.argv[1], sys.argv[2]
timeout = float(sys.argv[3]) if len(sys.argv) > 3 else 300
sys.path.insert(0, '.')
mod = importlib.import_module(modname)
fn = getattr(mod, fname)
opts = AnalysisOptionSet(per_condition_timeout=timeout, report_all=True, analysis_kind=[AnalysisKind.PEP316], max_uninteresting_iterations=sys.maxsize, stats=__import__("collections").Counter())
t0 = time.time()
checkables = analyze_function(fn, opts)
msgs = run_checkables(checkables)
dt = time.time() - t0
for m in msgs:
    print(m.state.name, m.message[:300])
print("STATS", dict(opts.stats))
for c in []:
    o = getattr(c, 'options', None)
    if o is not None:
        print('stats', dict(o.stats) if o.stats else None)
print('wall', round(dt, 1))
