from p6 import py_unrepr, Ctx
import sys
from yldprolog import yp_prolog_visitor as V
from yldprolog.yp_generator import YPPrologCompiler, YPPythonCodeGenerator

def gen_fact(name, args):
    clause = V.Clause(V.Predicate(V.Functor(V.Atom(name), args)), V.TruePredicate())
    program = {(name, len(args)): [clause]}
    code = YPPrologCompiler(Ctx).compile_program(program)
    return YPPythonCodeGenerator(Ctx).generate(code)

def check_lit(s: str) -> bool:
    """
    pre: len(s) <= 2
    post: _
    """
    out = gen_fact('p', [V.Atom(s)])
    marker = "unify(arg1,atom("
    k = out.find(marker)
    if k < 0:
        return False
    rest = out[k+len(marker):]
    end = rest.rfind(")):\n      yield False")
    if end < 0:
        return False
    lit = rest[:end]
    return py_unrepr(lit) == s

def check_unquote(t: str) -> bool:
    """
    pre: len(t) <= 4
    post: _
    """
    if '\\' in t:
        return True
    q = "'" + t.replace("'", "\\'") + "'"
    v = V.YPPrologVisitor(Ctx)
    return V.YPPrologVisitor.unquoteString(v, q) == t
