"""generate body trees + two spellings (probe)"""
import itertools
LEAVES = ['call', 'true', 'fail', 'cut']
def trees(n, cut_ok=True):
    """all trees with exactly n operator nodes"""
    if n == 0:
        for l in LEAVES:
            if l == 'cut' and not cut_ok: continue
            yield (l,)
        return
    # unary
    for t in trees(n-1, False):
        yield ('not', t)
    # binary / ternary
    for k in range(n):
        for op in ('and', 'or', 'it'):
            for a in trees(k, cut_ok and op != 'it'):
                if op == 'or' and a[0] == 'it': continue   # that is ite
                for b in trees(n-1-k, cut_ok):
                    yield (op, a, b)
    for k1 in range(n):
        for k2 in range(n-k1):
            k3 = n-1-k1-k2
            if k3 < 0: continue
            for c in trees(k1, False):
                for t in trees(k2, cut_ok):
                    for e in trees(k3, cut_ok):
                        yield ('ite', c, t, e)
def name_calls(t, ctr):
    if t[0] == 'call':
        nm = 'abcdwxyz'[ctr[0]]; ctr[0] += 1
        return ('call', nm)
    if len(t) == 1: return t
    return (t[0],) + tuple(name_calls(x, ctr) for x in t[1:])
PRI = {'and': 1000, 'it': 1050, 'ite': 1100, 'or': 1100}
def pri(t):
    return PRI.get(t[0], 0)
def txt(t, maxp=1200):
    k = t[0]
    if k == 'call': s = t[1]
    elif k == 'true': s = 'true'
    elif k == 'fail': s = 'fail'
    elif k == 'cut': s = '!'
    elif k == 'not':
        a = t[1]
        s = '\\+ ' + (txt(a, 0) if a[0] in ('call','true','fail','cut','not') else '(' + txt(a) + ')')
        return s
    elif k == 'and': s = txt(t[1], 999) + ' , ' + txt(t[2], 1000)
    elif k == 'it': s = txt(t[1], 1049) + ' -> ' + txt(t[2], 1050)
    elif k == 'or': s = txt(t[1], 1099) + ' ; ' + txt(t[2], 1100)
    elif k == 'ite': s = txt(t[1], 1049) + ' -> ' + txt(t[2], 1050) + ' ; ' + txt(t[3], 1100)
    if pri(t) > maxp: s = '(' + s + ')'
    return s
def full(t):
    k = t[0]
    if len(t) == 1 or k == 'call': return txt(t)
    if k == 'not': return '\\+ (' + full(t[1]) + ')'
    if k == 'and': return '((' + full(t[1]) + ') , (' + full(t[2]) + '))'
    if k == 'it': return '((' + full(t[1]) + ') -> (' + full(t[2]) + '))'
    if k == 'or': return '((' + full(t[1]) + ') ; (' + full(t[2]) + '))'
    if k == 'ite': return '((' + full(t[1]) + ') -> (' + full(t[2]) + ') ; (' + full(t[3]) + '))'
def all_bodies(n):
    out = []
    for k in range(n+1):
        for t in trees(k):
            out.append(name_calls(t, [0]))
    return out
if __name__ == '__main__':
    for n in (0,1,2):
        print(n, len(list(trees(n))))
    for b in all_bodies(1)[:20]: print(txt(b), '   |   ', full(b))
