import os, sys
os.environ['BODY'] = 'a -> b ; c -> d ; w'
os.environ['REF'] = "('ite', ('call','a'), ('call','b'), ('ite', ('call','c'), ('call','d'), ('call','w')))"
sys.path.insert(0, '/tmp/probe')
import p12
from p12 import *
counts = [0, 0, 0, 0, 2, 0, 2, 0, 0, 0, 0, 0, 0, 0, 0, 0]
w = World(counts)
yp = YP(); yp.load_script_from_string(CODE, overwrite=False)
for nm in 'abcdefgw':
    yp.register_function(nm, (lambda nm: (lambda: w.leaf(nm)))(nm))
got = [tuple(w.stack) for _ in yp.query('top', [])]
print('memo after impl', w.memo)
exp = [tuple(w.stack) for _ in ref_top(w)]
print('memo after ref ', w.memo)
print('got', got); print('exp', exp)
print(CODE)
