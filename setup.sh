#!/bin/sh
# Builds /verif/.venv: a venv of /venv/bin/python that also sees /venv's site-packages
# (antlr4 runtime, click, the editable yldprolog install -> /repo/src) plus crosshair-tool
# and z3-solver from the offline wheelhouse.  Idempotent; needs no network.
set -e
cd "$(dirname "$0")"
if [ -x .venv/bin/python ] && .venv/bin/python -c "import crosshair, z3, antlr4, yldprolog" 2>/dev/null; then
    exit 0
fi
rm -rf .venv
/venv/bin/python -m venv .venv
SP=$(.venv/bin/python -c "import sysconfig; print(sysconfig.get_paths()['purelib'])")
echo "import site; site.addsitedir('/venv/lib/python3.12/site-packages')" > "$SP/_base_venv.pth"
PIP_NO_INDEX=1 .venv/bin/pip install -q --no-index --find-links /opt/veriftools/wheels crosshair-tool z3-solver >/dev/null
.venv/bin/python -c "import crosshair, z3, antlr4, yldprolog; assert yldprolog.__file__.startswith('/repo/src/'), yldprolog.__file__"
