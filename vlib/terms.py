"""Reference term representation, reference unifier (with occurs check used only to
classify 'needs a cyclic term' cases), decoder from shape codes to (real term, reference
term) pairs, and a structural reader of real engine terms that does not use get_value.

Reference terms:  ('v', i) | ('c', pyconst) | ('a', name) | ('f', name, (args...))
Lists are ('f', '.', (head, tail)) with ('a', '[]') as nil, as in the engine.
"""
from crosshair.tracers import NoTracing
from yldprolog.engine import Variable, Atom, Functor


class Cyclic(Exception):
    pass


def walk(t, s):
    while t[0] == 'v' and t[1] in s:
        t = s[t[1]]
    return t


def occurs(i, t, s):
    t = walk(t, s)
    if t[0] == 'v':
        return t[1] == i
    if t[0] == 'f':
        for a in t[2]:
            if occurs(i, a, s):
                return True
    return False


def runify(a, b, s):
    """Most general unifier extending substitution s (dict var id -> term), or None.
    Raises Cyclic when the only solution would be a cyclic term."""
    a = walk(a, s)
    b = walk(b, s)
    if a[0] == 'v':
        if b[0] == 'v' and b[1] == a[1]:
            return s
        if occurs(a[1], b, s):
            raise Cyclic()
        s = dict(s)
        s[a[1]] = b
        return s
    if b[0] == 'v':
        if occurs(b[1], a, s):
            raise Cyclic()
        s = dict(s)
        s[b[1]] = a
        return s
    if a[0] != b[0]:
        return None
    if a[0] == 'c' or a[0] == 'a':
        return s if a[1] == b[1] else None
    if a[1] != b[1] or len(a[2]) != len(b[2]):
        return None
    for x, y in zip(a[2], b[2]):
        s = runify(x, y, s)
        if s is None:
            return None
    return s


def resolve(t, s, names):
    """t under substitution s with variables renamed canonically (order of first occurrence)."""
    t = walk(t, s)
    if t[0] == 'v':
        if t[1] not in names:
            names[t[1]] = len(names)
        return ('v', names[t[1]])
    if t[0] == 'f':
        return ('f', t[1], tuple([resolve(a, s, names) for a in t[2]]))
    return t


def show(t, names):
    """Reads a real engine term structurally (own dereferencing via _is_bound/_value),
    variables renamed canonically by identity.  Only restructures (no operation on payload
    values), so it runs with CrossHair's tracer switched off."""
    with NoTracing():
        return _show(t, names)


class CyclicBinding(Exception):
    """a chain of variable bindings that never ends (X -> Y -> X): the engine built a cyclic binding"""


def _show(t, names):
    steps = 0
    while isinstance(t, Variable) and t._is_bound:
        t = t._value
        steps += 1
        if steps > 200:
            raise CyclicBinding('variable binding chain does not end')
    if isinstance(t, Variable):
        k = id(t)
        if k not in names:
            names[k] = len(names)
        return ('v', names[k])
    if isinstance(t, Atom):
        return ('a', t._name)
    if isinstance(t, Functor):
        return ('f', t._name, tuple([_show(a, names) for a in t._args]))
    return ('c', t)


def raw_has_bound_variable(t):
    """True if the structure t, walked WITHOUT dereferencing, contains a bound variable."""
    if isinstance(t, Variable):
        return t._is_bound
    if isinstance(t, Functor):
        for a in t._args:
            if raw_has_bound_variable(a):
                return True
    return False


LEAVES = ['v0', 'v1', 'v2', 'int', 'A', 'B', 'nil']
INNER = ['F1', 'F2', 'LP']
ALL = LEAVES + INNER


class Decoder:
    """Decodes a preorder stream of shape codes into a term, in two representations
    (real engine term, reference term).  Every node reads one code c and interprets it as
    an index into the alphabet given for its level:

        'v0'..'v2'  variable i            'int'  integer constant (payload: next symbolic int)
        'A' / 'B'   atom named names[0] / names[1]        'nil'  the atom []
        'F1'        names[2](X)           'F2'   names[3](X, Y)        'LP'  [X|Y]

    `levels` is a list of alphabets, one per depth from the node downwards; an inner
    symbol at the last level decodes to nil.  The caller bounds each code by its alphabet
    size in the precondition (see code_bounds)."""

    def __init__(self, variables, names, codes, ints):
        self.vars = variables
        self.names = names
        self.codes = codes
        self.ints = ints
        self.base = 0

    def term(self, levels):
        """decode one term; its nodes occupy the next 2**len(levels)-1 slots (heap layout:
        node i has children 2i+1 and 2i+2), so every slot has a fixed level and alphabet."""
        r = self._node(levels, 0, 0)
        self.base += 2 ** len(levels) - 1
        return r

    def _node(self, levels, depth, idx):
        c = self.codes[self.base + idx]
        alphabet = levels[depth]
        sym = alphabet[-1]
        for j in range(len(alphabet) - 1):
            if c == j:
                sym = alphabet[j]
                break
        if sym[0] == 'v':
            i = int(sym[1])
            return self.vars[i], ('v', i)
        if sym == 'int':
            k = self.ints[self.base + idx]
            return k, ('c', k)
        if sym == 'one':
            return 1, ('c', 1)
        if sym == 'T':
            return True, ('c', True)          # Python constants of other types that compare == with ints
        if sym == 'fl':
            return 1.0, ('c', 1.0)
        if sym == 'F0':
            return Functor(self.names[2], []), ('f', self.names[2], ())     # a compound without arguments, same name as F1
        if sym == 'A':
            return Atom(self.names[0]), ('a', self.names[0])
        if sym == 'B':
            return Atom(self.names[1]), ('a', self.names[1])
        if sym == 'nil' or depth + 1 >= len(levels):
            return Atom('[]'), ('a', '[]')
        x, rx = self._node(levels, depth + 1, 2 * idx + 1)
        if sym == 'F1':
            return Functor(self.names[2], [x]), ('f', self.names[2], (rx,))
        y, ry = self._node(levels, depth + 1, 2 * idx + 2)
        if sym == 'F2':
            return Functor(self.names[3], [x, y]), ('f', self.names[3], (rx, ry))
        return Functor('.', [x, y]), ('f', '.', (rx, ry))


def slot_alphabet_sizes(levels):
    """alphabet size of each of the 2**n-1 heap slots of a term with these levels"""
    out = []
    for d, a in enumerate(levels):
        out.extend([len(a)] * (2 ** d))
    return out


def max_codes(depth):
    """number of code slots a term of the given depth can consume (binary inner nodes)"""
    return 2 ** (depth + 1) - 1


def max_ints(depth):
    return 2 ** depth


def ref_to_python(t, s):
    """reference version of to_python for a reference term under substitution s"""
    t = walk(t, s)
    if t[0] == 'v':
        return None
    if t[0] == 'c':
        return t[1]
    if t[0] == 'a':
        return [] if t[1] == '[]' else t[1]
    if t[1] == '.' and len(t[2]) == 2:
        tail = ref_to_python(t[2][1], s)
        return [ref_to_python(t[2][0], s)] + tail
    return (t[1], [ref_to_python(a, s) for a in t[2]])
