"""Harness: a compiled program (skeleton) over symbolic dynamic facts and symbolic query
arguments, against refprolog.  Used by C01, C03, C09, C17, C20.

Skeleton = dict(name, clauses (refprolog clause list), query (name, [argkind...]),
                facts {(pred, arity): max count})
Arg kinds:   'any'  -> symbolic mode 0..5 + symbolic int constant
             ('fixed', ref term with ('v', 'Qn') variables)
"""
from crosshair.tracers import NoTracing

from . import ch
from .refprolog import Interp, StepLimit, program_text
from .terms import show, resolve, Cyclic
from .control import Ctx, CompileFailure, _compile

V = lambda n: ('v', n)
A = lambda n: ('a', n)
C = lambda n: ('c', n)
F = lambda n, *a: ('f', n, tuple(a))
NIL = ('a', '[]')


def L(*items, tail=NIL):
    r = tail
    for x in reversed(items):
        r = ('f', '.', (x, r))
    return r


def call(name, *args):
    return ('call', F(name, *args) if args else A(name))


def conj(*gs):
    r = gs[-1]
    for g in reversed(gs[:-1]):
        r = ('and', g, r)
    return r


def eq(a, b):
    return ('call', F('=', a, b))


def neq(a, b):
    return ('call', F('\\=', a, b))


TRUE, FAIL, CUT = ('true',), ('fail',), ('cut',)
NMODES = 6


class QueryBuilder:
    """builds the query arguments twice (engine terms / reference terms) from symbolic modes"""

    def __init__(self, yp, interp):
        self.yp = yp
        self.interp = interp
        self.first_var = None
        self.rvars = []          # (real var, ref var) created, for the unbound-afterwards check

    def var(self):
        v = self.yp.variable()
        r = self.interp.new_var()
        self.rvars.append((v, r))
        if self.first_var is None:
            self.first_var = (v, r)
        return v, r

    def any(self, mode, const):
        yp = self.yp
        if mode == 0:
            return self.var()
        if mode == 1:
            if self.first_var is not None:
                return self.first_var
            return self.var()
        if mode == 2:
            return const, ('c', const)
        if mode == 3:
            v, r = self.var()
            return yp.functor('f', [v]), ('f', 'f', (r,))
        if mode == 4:
            v, r = self.var()
            w, rw = self.var()
            return yp.listpair(v, w), ('f', '.', (r, rw))
        v, r = self.var()
        return yp.makelist([const, v]), L(('c', const), r)

    def fixed(self, t, env):
        """reference term with ('v', name) placeholders -> (real, ref)"""
        yp = self.yp
        if t[0] == 'v':
            if t[1] not in env:
                env[t[1]] = self.var()
            return env[t[1]]
        if t[0] == 'c':
            return t[1], t
        if t[0] == 'a':
            return yp.atom(t[1]), t
        if t[0] == 'sym':           # ('sym', k): k-th symbolic constant
            raise ValueError
        parts = [self.fixed(a, env) for a in t[2]]
        return yp.functor(t[1], [p[0] for p in parts]), ('f', t[1], tuple([p[1] for p in parts]))


def subst_syms(t, consts):
    """replace ('sym', k) leaves of a query template by ('c', consts[k])"""
    if t[0] == 'sym':
        return ('c', consts[t[1]])
    if t[0] == 'f':
        return ('f', t[1], tuple([subst_syms(a, consts) for a in t[2]]))
    return t


def count_syms(t):
    if t[0] == 'sym':
        return t[1] + 1
    if t[0] == 'f':
        return max([count_syms(a) for a in t[2]] + [0])
    return 0


def make_spec(sk):
    spec = []
    for (pred, arity), n in sk['facts'].items():
        spec.append(('n_%s' % pred, 'int', '0 <= n_%s <= %d' % (pred, n)))
        for i in range(n):
            for j in range(arity):
                spec.append(('%s_%d_%d' % (pred, i, j), 'int', None))
    nsym = 0
    for k, kind in enumerate(sk['query'][1]):
        if kind == 'any':
            spec.append(('m%d' % k, 'int', '0 <= m%d <= %d' % (k, NMODES - 1)))
            spec.append(('a%d' % k, 'int', None))
        else:
            nsym = max(nsym, count_syms(kind[1]))
    for k in range(nsym):
        spec.append(('s%d' % k, 'int', None))
    return spec


def compile_skeleton(sk):
    src = sk['source'] if sk.get('source') else program_text(sk['clauses'])     # 'source': a hand-laid-out text of the same clauses
    try:
        code = _compile(src)
        compile(code, 'gen', 'exec')
        return src, code, None
    except Exception as e:
        return src, None, CompileFailure(src, '%s: %s' % (type(e).__name__, str(e)[:200]))


def setup(sk, code, vals, ix):
    """common part: engine + interpreter with the same symbolic facts, query arguments"""
    from yldprolog.engine import YP
    yp = ch.new_engine()
    ch.load(yp, code)
    interp = Interp(sk['clauses'], max_steps=sk.get('max_steps', 1500))
    for (pred, arity), n in sk['facts'].items():
        cnt = vals[ix['n_%s' % pred]]
        for i in range(n):
            if i < cnt:
                row = [vals[ix['%s_%d_%d' % (pred, i, j)]] for j in range(arity)]
                yp.assert_fact(yp.atom(pred), list(row))
                interp.assert_fact(pred, tuple([('c', x) for x in row]), {})
    qb = QueryBuilder(yp, interp)
    consts = [vals[ix['s%d' % k]] for k in range(len([p for p in ix if p[0] == 's' and p[1:].isdigit()]))]
    real_args, ref_args = [], []
    env = {}
    for k, kind in enumerate(sk['query'][1]):
        if kind == 'any':
            a, r = qb.any(vals[ix['m%d' % k]], vals[ix['a%d' % k]])
        else:
            a, r = qb.fixed(subst_syms(kind[1], consts), env)
        real_args.append(a)
        ref_args.append(r)
    return yp, interp, qb, real_args, ref_args


def ref_answers(interp, name, ref_args, cap):
    exp = []
    for s in interp.query(name, ref_args):
        names = {}
        exp.append(tuple([resolve(r, s, names) for r in ref_args]))
        if len(exp) > cap:
            break
    return exp


def real_answers(yp, name, real_args, cap):
    got = []
    q = yp.query(name, list(real_args))
    try:
        for _ in q:
            names = {}
            got.append(tuple([show(a, names) for a in real_args]))
            if len(got) > cap:
                break
    finally:
        q.close()
    return got


def build_sld_unit(u, sk):
    """C01.a: answers of the compiled skeleton == refprolog's, in order, with multiplicity"""
    src, code, fail = compile_skeleton(sk)
    if fail is not None:
        return fail
    spec = make_spec(sk)
    ix = ch.index_of(spec)
    cap = int(u.get('cap', 12))
    info = {'source': src}
    qname = sk['query'][0]

    def body(vals):
        ch.install_registry(False)
        yp, interp, qb, real_args, ref_args = setup(sk, code, vals, ix)
        try:
            exp = ref_answers(interp, qname, ref_args, cap)
        except (Cyclic, StepLimit, RecursionError):
            return ch.HOLDS_TRIVIAL
        try:
            got = real_answers(yp, qname, real_args, cap)
        except Exception as e:
            ch.note(info, 'query raised %s: %s', type(e).__name__, str(e)[:200])
            return ch.VIOLATED
        if got != exp:
            ch.note(info, 'answers %r differ from SLD reference %r', got, exp)
            return ch.VIOLATED
        for v, _ in qb.rvars:
            if v._is_bound:
                ch.note(info, 'a query variable is still bound after the enumeration')
                return ch.VIOLATED
        return ch.HOLDS_NONTRIVIAL if len(exp) >= 1 else ch.HOLDS_TRIVIAL
    return ch.harness_from_spec(u['id'], spec, u.get('fixed', {}), body, info=info)
