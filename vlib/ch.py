"""CrossHair glue: build a PEP316 harness function with scalar parameters from a body
function, run it through CrossHair's API, extract verdict / counterexample / statistics.

Result codes returned by harness bodies (see DESIGN.md 1.1):
    0 HOLDS_NONTRIVIAL   1 HOLDS_TRIVIAL   2 VIOLATED
"""
import atexit
import collections
import importlib.util
import os
import re
import shutil
import sys
import tempfile
import time

HOLDS_NONTRIVIAL, HOLDS_TRIVIAL, VIOLATED = 0, 1, 2

_WORKDIR = None
_SEQ = [0]


def workdir():
    global _WORKDIR
    if _WORKDIR is None:
        _WORKDIR = tempfile.mkdtemp(prefix='vcheck_')
        atexit.register(shutil.rmtree, _WORKDIR, True)
    return _WORKDIR


class Harness:
    """A generated function `ob(p0: T0, p1: T1, ...) -> int` whose docstring carries the
    pre/post conditions and whose body just calls `body(p0, p1, ...)`.

    params: list of (name, type string, precondition string or None)
    body:   callable taking the parameters positionally, returning 0/1/2
    extra_pre: further `pre:` lines (strings over the parameter names)
    """

    def __init__(self, name, params, body, extra_pre=()):
        self.name = name
        self.params = params
        self.body = body
        self.extra_pre = list(extra_pre)
        self._fns = {}

    def _source(self, post):
        sig = ", ".join("%s: %s" % (n, t) for n, t, _ in self.params)
        pres = [p for _, _, p in self.params if p] + self.extra_pre
        lines = ["def ob(%s) -> int:" % sig, '    """']
        # group preconditions to keep the number of pre lines small
        for i in range(0, len(pres), 6):
            lines.append("    pre: " + " and ".join("(%s)" % p for p in pres[i:i + 6]))
        lines.append("    post: " + post)
        lines.append('    """')
        lines.append("    return _BODY(%s)" % ", ".join(n for n, _, _ in self.params))
        return "\n".join(lines) + "\n"

    def fn(self, post):
        if post not in self._fns:
            _SEQ[0] += 1
            modname = "vh_%d_%d" % (os.getpid(), _SEQ[0])
            path = os.path.join(workdir(), modname + ".py")
            with open(path, "w") as f:
                f.write(self._source(post))
            spec = importlib.util.spec_from_file_location(modname, path)
            mod = importlib.util.module_from_spec(spec)
            mod._BODY = self.body
            sys.modules[modname] = mod
            spec.loader.exec_module(mod)
            self._fns[post] = mod.ob
        return self._fns[post]

    def run_native(self, args):
        """Replay: run the body on concrete arguments without CrossHair."""
        return self.body(*[args[n] for n, _, _ in self.params])


_SOLVER_TIME = [0.0, 0]


def _instrument_solver():
    """Wrap z3.Solver.check so that time spent inside the SMT solver is accumulated."""
    import z3
    if getattr(z3.Solver.check, '_vtimed', False):
        return
    orig = z3.Solver.check

    def check(self, *a, **k):
        t0 = time.perf_counter()
        try:
            return orig(self, *a, **k)
        finally:
            _SOLVER_TIME[0] += time.perf_counter() - t0
            _SOLVER_TIME[1] += 1
    check._vtimed = True
    z3.Solver.check = check


_CALL_RE = re.compile(r"when calling ob\((.*)\)(?: \(which (?:returns|raises).*\))?$", re.S)


def _parse_args(message, harness):
    """The counterexample as a dict, parsed from CrossHair's message
    ('false when calling ob(a=1, b="x") (which returns 2)')."""
    m = re.search(r"when calling ob\((.*)\)", message, re.S)
    if not m:
        return None
    inner = m.group(1)
    # cut a trailing ") (which returns ..." remainder if the greedy match took it
    idx = inner.rfind(") (which ")
    if idx >= 0:
        inner = inner[:idx]
    try:
        d = eval("dict(%s)" % inner, {"__builtins__": {}, "dict": dict, "float": float, "chr": chr})
    except Exception:
        try:
            vals = eval("(%s,)" % inner, {"__builtins__": {}, "float": float, "chr": chr})
            d = {n: v for (n, _, _), v in zip(harness.params, vals)}
        except Exception:
            return None
    return d


def _no_optional_shortcircuit():
    """CrossHair may, with some probability, skip the body of contract-bearing library
    functions (repr, hash, ...) and return a fresh symbolic value that is reconciled later.
    That only adds forks and aborted paths here (everything we call must really run), so
    optional short-circuiting is switched off; mandatory cases (specs_complete) are kept."""
    import crosshair.core as core
    if getattr(core.consider_shortcircuit, '_vpatched', False):
        return
    orig = core.consider_shortcircuit

    def consider(fn, sig, bound, subconditions, allow_interpretation):
        if allow_interpretation:
            return None
        return orig(fn, sig, bound, subconditions, allow_interpretation)
    consider._vpatched = True
    core.consider_shortcircuit = consider


def run_condition(harness, post="_ != 2", timeout=60.0, per_path_timeout=None):
    """Run CrossHair on the harness with the given postcondition.
    Returns dict(state, message, args, paths, solver_s, solver_calls, cpu_s, wall_s).
    state is one of CONFIRMED, POST_FAIL, EXEC_ERR, CANNOT_CONFIRM, PRE_UNSAT, ..."""
    from crosshair.core_and_libs import analyze_function, run_checkables
    from crosshair.options import AnalysisOptionSet, AnalysisKind
    _instrument_solver()
    _no_optional_shortcircuit()
    fn = harness.fn(post)
    stats = collections.Counter()
    kw = dict(per_condition_timeout=float(timeout), report_all=True,
              analysis_kind=[AnalysisKind.PEP316],
              max_uninteresting_iterations=sys.maxsize, stats=stats)
    if per_path_timeout is not None:
        kw['per_path_timeout'] = float(per_path_timeout)
    opts = AnalysisOptionSet(**kw)
    s0, c0 = _SOLVER_TIME
    t0 = time.perf_counter()
    p0 = time.process_time()
    msgs = run_checkables(analyze_function(fn, opts))
    out = dict(state='NO_MESSAGE', message='', args=None)
    # pick the most severe message
    order = ['POST_FAIL', 'EXEC_ERR', 'PRE_UNSAT', 'CANNOT_CONFIRM', 'POST_ERR', 'SYNTAX_ERR', 'IMPORT_ERR', 'CONFIRMED']
    best = None
    for m in msgs:
        nm = m.state.name
        if best is None or order.index(nm) < order.index(best.state.name):
            best = m
    if best is not None:
        out['state'] = best.state.name
        out['message'] = best.message[:2000]
        if best.state.name in ('POST_FAIL', 'EXEC_ERR', 'POST_ERR'):
            out['args'] = _parse_args(best.message, harness)
            if best.traceback:
                out['traceback'] = best.traceback[-1500:]
    out['paths'] = int(stats.get('num_paths', 0))
    out['solver_s'] = round(_SOLVER_TIME[0] - s0, 3)
    out['solver_calls'] = _SOLVER_TIME[1] - c0
    out['cpu_s'] = round(time.process_time() - p0, 2)
    out['wall_s'] = round(time.perf_counter() - t0, 2)
    return out


def harness_from_spec(name, spec, fixed, body, extra_pre=(), info=None):
    """spec: list of (param name, type string, precondition or None); parameters named in
    `fixed` are removed from the signature and supplied concretely (work-unit partitioning).
    body takes ONE argument: the list of all parameter values in spec order (use
    `index_of(spec)` to address them by name; no dict is built per path - dict operations
    on symbolic values are slow under CrossHair)."""
    free = [p for p in spec if p[0] not in fixed]
    slots = []          # for every spec position: ('f', concrete value) or ('p', index into vals)
    k = 0
    for p in spec:
        if p[0] in fixed:
            slots.append(('f', fixed[p[0]]))
        else:
            slots.append(('p', k))
            k += 1

    def positional(*vals):
        return body([s[1] if s[0] == 'f' else vals[s[1]] for s in slots])
    h = Harness(name, free, positional, extra_pre)
    h.info = info if info is not None else {}
    h.fixed = dict(fixed)
    return h


def index_of(spec):
    return {p[0]: i for i, p in enumerate(spec)}


class VarRegistry:
    """Strong-reference stand-in for engine._verif_variables (the YLDPROLOG_VERIF hook
    uses a WeakSet, whose callbacks make CrossHair run gc.collect on every drop)."""
    def __init__(self):
        self.items = []

    def add(self, v):
        self.items.append(v)


def install_registry(on=True):
    """Route the engine's Variable registration hook into a fresh list (or switch it off)."""
    import yldprolog.engine as engine
    assert hasattr(engine, '_verif_variables'), 'YLDPROLOG_VERIF hook missing from engine.py'
    reg = VarRegistry() if on else None
    engine._verif_variables = reg
    return reg


def new_engine():
    """A fresh engine, constructed with CrossHair's tracer switched off: YP.__init__ touches
    no symbolic value (it registers the builtins via inspect.signature, which is very slow
    when traced); obligations about construction/registration itself do not use this."""
    from crosshair.tracers import NoTracing
    from yldprolog.engine import YP
    with NoTracing():
        return YP()


def note(info, fmt, *args):
    """Record why a path is a violation.  Only done on native replay: under CrossHair the
    arguments are symbolic and formatting them would realise them for nothing."""
    from crosshair.tracers import is_tracing
    if is_tracing():
        return
    try:
        info['reason'] = fmt % args
    except Exception:
        info['reason'] = fmt


def load(yp, code, overwrite=False):
    """load_script_from_string on concrete code with the tracer off (no symbolic value involved)"""
    from crosshair.tracers import NoTracing
    with NoTracing():
        yp.load_script_from_string(code, overwrite=overwrite)


class DirectUnit:
    """A unit that is decided without CrossHair (direct SMT queries, or native validation).
    run() returns a result dict with at least 'verdict'."""
    def run(self):
        raise NotImplementedError
