"""g4 - reads /repo/src/yldprolog/prolog.g4 on every run and derives, independently of the
ANTLR-generated code:

  * the lexer: every lexer rule (and every literal used in parser rules, which ANTLR turns
    into implicit tokens of highest priority) becomes a small regex AST; tokenisation is
    longest-match with rule-order priority by NFA simulation (no `re`); `to_z3` exports a
    rule as a z3 regular expression, `to_pyre` as a Python `re` pattern (for validation);
  * the parser rules as a BNF grammar for an Earley recogniser (recognise()) - an
    independent decision procedure for "is this token sequence a sentence of `program`".

Regex AST:  ('chr', frozenset|None, negated)  ('seq', [..])  ('alt', [..])  ('star', x)
            ('plus', x)  ('opt', x)  ('any',)
"""
import os
import re

G4_PATH = None


def g4_path():
    import yldprolog
    return os.path.join(os.path.dirname(yldprolog.__file__), 'prolog.g4')


def _strip_comments(text):
    out = []
    i = 0
    n = len(text)
    while i < n:
        c = text[i]
        if c == "'":
            j = i + 1
            while j < n and text[j] != "'":
                j += 2 if text[j] == '\\' else 1
            out.append(text[i:j + 1])
            i = j + 1
        elif c == '[' :
            j = i + 1
            while j < n and text[j] != ']':
                j += 2 if text[j] == '\\' else 1
            out.append(text[i:j + 1])
            i = j + 1
        elif text.startswith('/*', i):
            j = text.find('*/', i + 2)
            i = n if j < 0 else j + 2
        elif text.startswith('//', i):
            j = text.find('\n', i)
            i = n if j < 0 else j
        else:
            out.append(c)
            i += 1
    return ''.join(out)


_TOK = re.compile(r"""\s*(?:
      (?P<lit>'(?:\\.|[^'\\])*')
    | (?P<set>\[(?:\\.|[^\]\\])*\])
    | (?P<id>[A-Za-z_][A-Za-z_0-9]*)
    | (?P<arrow>->)
    | (?P<lazy>\*\?|\+\?)
    | (?P<angle><[^>]*>)
    | (?P<sym>[:;|()*+?~.=])
    )""", re.X)


def _tokens(text):
    pos = 0
    out = []
    text = text.rstrip()
    while pos < len(text):
        m = _TOK.match(text, pos)
        if not m:
            if text[pos:].strip() == '':
                break
            raise ValueError('g4 syntax not understood at %r' % text[pos:pos + 30])
        pos = m.end()
        kind = m.lastgroup
        out.append((kind, m.group(kind)))
    return out


def _unescape(s):
    out = []
    i = 0
    while i < len(s):
        c = s[i]
        if c == '\\':
            i += 1
            d = s[i]
            if d == 'u':
                out.append(chr(int(s[i + 1:i + 5], 16)))
                i += 4
            else:
                out.append({'n': '\n', 'r': '\r', 't': '\t', 'b': '\b', 'f': '\f'}.get(d, d))
        else:
            out.append(c)
        i += 1
    return ''.join(out)


def _set_chars(body):
    s = _unescape_set(body)
    return s


def _unescape_set(body):
    chars = set()
    i = 0
    items = []
    while i < len(body):
        c = body[i]
        if c == '\\':
            d = body[i + 1]
            items.append({'n': '\n', 'r': '\r', 't': '\t', 'b': '\b', 'f': '\f'}.get(d, d))
            i += 2
        else:
            items.append(c)
            i += 1
    j = 0
    while j < len(items):
        if j + 2 < len(items) and items[j + 1] == '-':
            for o in range(ord(items[j]), ord(items[j + 2]) + 1):
                chars.add(chr(o))
            j += 3
        else:
            chars.add(items[j])
            j += 1
    return frozenset(chars)


class Grammar:
    def __init__(self, path=None):
        self.path = path or g4_path()
        text = _strip_comments(open(self.path, encoding='utf8').read())
        m = re.search(r'grammar\s+\w+\s*;', text)
        body = text[m.end():]
        self.lexer_rules = []        # (name, ast, skip, fragment) in order
        self.parser_rules = {}       # name -> list of alternatives (list of symbols), EBNF expanded
        self.parser_order = []
        self.literals = []           # implicit tokens in order of first appearance
        self._aux = 0
        raw_rules = self._split_rules(body)
        for name, toks, fragment in raw_rules:
            if name[0].isupper():
                skip = False
                if ('arrow', '->') in toks:
                    k = toks.index(('arrow', '->'))
                    skip = any(t[1] == 'skip' for t in toks[k:])
                    toks = toks[:k]
                ast, rest = self._lex_alt(toks, 0)
                if rest != len(toks):
                    raise ValueError('lexer rule %s not fully parsed' % name)
                self.lexer_rules.append((name, ast, skip, fragment))
            else:
                self.parser_order.append(name)
                alts, rest = self._par_alt(toks, 0, name)
                if rest != len(toks):
                    raise ValueError('parser rule %s not fully parsed' % name)
                self.parser_rules[name] = alts
        self.frag = {n: a for n, a, s, f in self.lexer_rules}

    def _split_rules(self, body):
        toks = _tokens(body)
        rules = []
        i = 0
        while i < len(toks):
            fragment = False
            if toks[i] == ('id', 'fragment'):
                fragment = True
                i += 1
            name = toks[i][1]
            assert toks[i + 1] == ('sym', ':'), toks[i:i + 3]
            j = i + 2
            depth = 0
            while not (toks[j] == ('sym', ';') and depth == 0):
                if toks[j] == ('sym', '('):
                    depth += 1
                elif toks[j] == ('sym', ')'):
                    depth -= 1
                j += 1
            rules.append((name, toks[i + 2:j], fragment))
            i = j + 1
        return rules

    # ---- lexer rule bodies ---------------------------------------------------------
    def _lex_alt(self, toks, i):
        alts = []
        seq, i = self._lex_seq(toks, i)
        alts.append(seq)
        while i < len(toks) and toks[i] == ('sym', '|'):
            seq, i = self._lex_seq(toks, i + 1)
            alts.append(seq)
        return (alts[0] if len(alts) == 1 else ('alt', alts)), i

    def _lex_seq(self, toks, i):
        items = []
        while i < len(toks) and toks[i] not in (('sym', '|'), ('sym', ')')):
            kind, val = toks[i]
            neg = False
            if (kind, val) == ('sym', '~'):
                neg = True
                i += 1
                kind, val = toks[i]
            if kind == 'lit':
                s = _unescape(val[1:-1])
                if neg:
                    atom = ('chr', frozenset(s), True)
                else:
                    atom = ('seq', [('chr', frozenset(c), False) for c in s]) if len(s) != 1 else ('chr', frozenset(s), False)
                i += 1
            elif kind == 'set':
                atom = ('chr', _unescape_set(val[1:-1]), neg)
                i += 1
            elif kind == 'id':
                atom = ('ref', val)
                i += 1
            elif (kind, val) == ('sym', '.'):
                atom = ('any',)
                i += 1
            elif (kind, val) == ('sym', '('):
                atom, i = self._lex_alt(toks, i + 1)
                assert toks[i] == ('sym', ')')
                i += 1
            else:
                raise ValueError('unexpected %r in lexer rule' % (toks[i],))
            if i < len(toks):
                k2, v2 = toks[i]
                if (k2, v2) == ('sym', '*'):
                    atom = ('star', atom)
                    i += 1
                elif (k2, v2) == ('sym', '+'):
                    atom = ('plus', atom)
                    i += 1
                elif (k2, v2) == ('sym', '?'):
                    atom = ('opt', atom)
                    i += 1
                elif k2 == 'lazy':
                    atom = ('lazy', atom)
                    i += 1
            items.append(atom)
        # non-greedy  X*? Y  with Y a character set: (not first(Y))* Y
        out = []
        j = 0
        while j < len(items):
            it = items[j]
            if it[0] == 'lazy':
                nxt = items[j + 1]
                if it[1] != ('any',) or nxt[0] != 'chr' or nxt[2]:
                    raise ValueError('non-greedy loop outside the supported shape  .*? [set]')
                out.append(('star', ('chr', nxt[1], True)))
            else:
                out.append(it)
            j += 1
        return (out[0] if len(out) == 1 else ('seq', out)), i

    def resolve(self, ast):
        k = ast[0]
        if k == 'ref':
            return self.resolve(self.frag[ast[1]])
        if k in ('seq', 'alt'):
            return (k, [self.resolve(x) for x in ast[1]])
        if k in ('star', 'plus', 'opt'):
            return (k, self.resolve(ast[1]))
        return ast

    # ---- parser rule bodies --------------------------------------------------------
    def _new_aux(self, base):
        self._aux += 1
        return '%s__%d' % (base, self._aux)

    def _par_alt(self, toks, i, base):
        alts = []
        seq, i = self._par_seq(toks, i, base)
        alts.append(seq)
        while i < len(toks) and toks[i] == ('sym', '|'):
            seq, i = self._par_seq(toks, i + 1, base)
            alts.append(seq)
        return alts, i

    def _par_seq(self, toks, i, base):
        items = []
        while i < len(toks) and toks[i] not in (('sym', '|'), ('sym', ')')):
            kind, val = toks[i]
            if kind == 'angle':
                i += 1
                continue
            if kind == 'id' and i + 1 < len(toks) and toks[i + 1] == ('sym', '='):
                i += 2          # label  op=','
                continue
            if kind == 'lit':
                s = _unescape(val[1:-1])
                if s not in self.literals:
                    self.literals.append(s)
                sym = ('T', "'" + s + "'")
                i += 1
            elif kind == 'id':
                sym = ('T', val) if val[0].isupper() else ('N', val)
                i += 1
            elif (kind, val) == ('sym', '('):
                alts, i = self._par_alt(toks, i + 1, base)
                assert toks[i] == ('sym', ')')
                i += 1
                aux = self._new_aux(base)
                self.parser_rules[aux] = alts
                sym = ('N', aux)
            else:
                raise ValueError('unexpected %r in parser rule %s' % (toks[i], base))
            if i < len(toks) and toks[i][0] == 'sym' and toks[i][1] in '*+?':
                op = toks[i][1]
                i += 1
                aux = self._new_aux(base)
                if op == '*':
                    self.parser_rules[aux] = [[], [sym, ('N', aux)]]
                elif op == '+':
                    self.parser_rules[aux] = [[sym], [sym, ('N', aux)]]
                else:
                    self.parser_rules[aux] = [[], [sym]]
                sym = ('N', aux)
            items.append(sym)
        return items, i

    # ---- token rules in priority order -------------------------------------------------
    def token_rules(self):
        """[(token name, resolved ast, skip)]: implicit literals first, then lexer rules (no fragments)"""
        out = []
        for s in self.literals:
            ast = ('seq', [('chr', frozenset(c), False) for c in s]) if len(s) != 1 else ('chr', frozenset(s), False)
            out.append(("'" + s + "'", ast, False))
        for name, ast, skip, fragment in self.lexer_rules:
            if not fragment:
                out.append((name, self.resolve(ast), skip))
        return out


# ---- NFA (Thompson) -----------------------------------------------------------------------
class NFA:
    def __init__(self):
        self.eps = []        # state -> list of states
        self.trans = []      # state -> list of (charset, negated, target); charset None = any

    def new(self):
        self.eps.append([])
        self.trans.append([])
        return len(self.eps) - 1

    def build(self, ast, start):
        """returns the accepting state of a fragment starting at `start`"""
        k = ast[0]
        if k == 'chr':
            t = self.new()
            self.trans[start].append((ast[1], ast[2], t))
            return t
        if k == 'any':
            t = self.new()
            self.trans[start].append((None, False, t))
            return t
        if k == 'seq':
            cur = start
            for x in ast[1]:
                cur = self.build(x, cur)
            return cur
        if k == 'alt':
            end = self.new()
            for x in ast[1]:
                s = self.new()
                self.eps[start].append(s)
                e = self.build(x, s)
                self.eps[e].append(end)
            return end
        if k == 'star':
            s = self.new()
            end = self.new()
            self.eps[start].append(s)
            self.eps[start].append(end)
            e = self.build(ast[1], s)
            self.eps[e].append(s)
            self.eps[e].append(end)
            return end
        if k == 'plus':
            e = self.build(ast[1], start)
            return self.build(('star', ast[1]), e)
        if k == 'opt':
            end = self.new()
            self.eps[start].append(end)
            e = self.build(ast[1], start)
            self.eps[e].append(end)
            return end
        raise ValueError(ast)

    def closure(self, states):
        stack = list(states)
        seen = set(states)
        while stack:
            s = stack.pop()
            for t in self.eps[s]:
                if t not in seen:
                    seen.add(t)
                    stack.append(t)
        return seen

    def step(self, states, c):
        out = set()
        for s in states:
            for cs, neg, t in self.trans[s]:
                if cs is None or ((c in cs) != neg):
                    out.add(t)
        return self.closure(out)


class Lexer:
    def __init__(self, grammar=None):
        self.g = grammar or Grammar()
        self.rules = self.g.token_rules()
        self.nfa = NFA()
        self.start = self.nfa.new()
        self.accept = {}
        for idx, (name, ast, skip) in enumerate(self.rules):
            s = self.nfa.new()
            self.nfa.eps[self.start].append(s)
            e = self.nfa.build(ast, s)
            self.accept[e] = idx
        self.start_set = self.nfa.closure({self.start})

    def longest(self, text, pos):
        """(rule index, end) of the longest match at pos (ties: lowest rule index) or None"""
        states = self.start_set
        best = None
        i = pos
        while True:
            hit = [self.accept[s] for s in states if s in self.accept]
            if hit and i > pos:
                best = (min(hit), i)
            if i >= len(text) or not states:
                break
            states = self.nfa.step(states, text[i])
            i += 1
        return best

    def tokenize(self, text):
        """list of (token name, lexeme, position); raises LexError at the first character no rule matches"""
        out = []
        pos = 0
        while pos < len(text):
            m = self.longest(text, pos)
            if m is None:
                raise LexError(pos)
            idx, end = m
            name, _, skip = self.rules[idx]
            if not skip:
                out.append((name, text[pos:end], pos))
            pos = end
        return out

    def rule_ast(self, name):
        for n, ast, skip in self.rules:
            if n == name:
                return ast
        raise KeyError(name)


class LexError(Exception):
    def __init__(self, pos):
        Exception.__init__(self, 'no token at offset %d' % pos)
        self.pos = pos


# ---- exports of a rule's language -------------------------------------------------------
def to_pyre(ast):
    k = ast[0]
    if k == 'chr':
        body = ''.join(re.escape(c) for c in sorted(ast[1]))
        return '[%s%s]' % ('^' if ast[2] else '', body)
    if k == 'any':
        return r'[\s\S]'
    if k == 'seq':
        return ''.join(to_pyre(x) for x in ast[1])
    if k == 'alt':
        return '(?:' + '|'.join(to_pyre(x) for x in ast[1]) + ')'
    if k == 'star':
        return '(?:%s)*' % to_pyre(ast[1])
    if k == 'plus':
        return '(?:%s)+' % to_pyre(ast[1])
    if k == 'opt':
        return '(?:%s)?' % to_pyre(ast[1])
    raise ValueError(ast)


def to_z3(ast):
    import z3
    k = ast[0]
    if k == 'chr':
        chars = sorted(ast[1])
        parts = []
        # merge into ranges
        i = 0
        while i < len(chars):
            j = i
            while j + 1 < len(chars) and ord(chars[j + 1]) == ord(chars[j]) + 1:
                j += 1
            parts.append(z3.Range(chars[i], chars[j]) if j > i else z3.Re(z3.StringVal(chars[i])))
            i = j + 1
        r = parts[0] if len(parts) == 1 else z3.Union(*parts)
        if ast[2]:
            r = z3.Diff(z3.AllChar(z3.ReSort(z3.StringSort())), r)
        return r
    if k == 'any':
        return z3.AllChar(z3.ReSort(z3.StringSort()))
    if k == 'seq':
        xs = [to_z3(x) for x in ast[1]]
        return xs[0] if len(xs) == 1 else z3.Concat(*xs)
    if k == 'alt':
        xs = [to_z3(x) for x in ast[1]]
        return xs[0] if len(xs) == 1 else z3.Union(*xs)
    if k == 'star':
        return z3.Star(to_z3(ast[1]))
    if k == 'plus':
        return z3.Plus(to_z3(ast[1]))
    if k == 'opt':
        return z3.Option(to_z3(ast[1]))
    raise ValueError(ast)


# ---- Earley recogniser over token names --------------------------------------------------
def recognise(grammar, token_names, start='program'):
    """True iff the token-name sequence is derivable from `start` in the grammar's BNF"""
    rules = grammar.parser_rules
    n = len(token_names)
    chart = [set() for _ in range(n + 1)]
    order = [[] for _ in range(n + 1)]

    def add(k, item):
        if item not in chart[k]:
            chart[k].add(item)
            order[k].append(item)
    for ai in range(len(rules[start])):
        add(0, (start, ai, 0, 0))
    nullable = _nullable(rules)
    for k in range(n + 1):
        idx = 0
        while idx < len(order[k]):
            lhs, ai, dot, origin = order[k][idx]
            idx += 1
            rhs = rules[lhs][ai]
            if dot < len(rhs):
                kind, sym = rhs[dot]
                if kind == 'N':
                    for bi in range(len(rules[sym])):
                        add(k, (sym, bi, 0, k))
                    if sym in nullable:
                        add(k, (lhs, ai, dot + 1, origin))
                else:
                    if k < n and token_names[k] == sym:
                        add(k + 1, (lhs, ai, dot + 1, origin))
            else:
                for (l2, a2, d2, o2) in list(chart[origin]):
                    r2 = rules[l2][a2]
                    if d2 < len(r2) and r2[d2] == ('N', lhs):
                        add(k, (l2, a2, d2 + 1, o2))
    for (lhs, ai, dot, origin) in chart[n]:
        if lhs == start and origin == 0 and dot == len(rules[lhs][ai]):
            return True
    return False


def _nullable(rules):
    nullable = set()
    changed = True
    while changed:
        changed = False
        for lhs, alts in rules.items():
            if lhs in nullable:
                continue
            for rhs in alts:
                if all(k == 'N' and s in nullable for k, s in rhs):
                    nullable.add(lhs)
                    changed = True
                    break
    return nullable


def is_sentence(text, lexer=None):
    """independent decision: does `text` lex completely and parse as `program`?"""
    lexer = lexer or Lexer()
    try:
        toks = lexer.tokenize(text)
    except LexError:
        return False
    return recognise(lexer.g, [t[0] for t in toks])
