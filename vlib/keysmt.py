"""Direct SMT obligations about the engine's predicate keys (C08.b, C12.c).

The key expressions are read from the AST of /repo/src/yldprolog/engine.py on every run:
every f-string inside YP.query and YP.register_function is translated into an SMT-LIB
string term over  name : String  and  d : String  where d stands for the decimal rendering
of a non-negative integer (regex 0|[1-9][0-9]*; rendering is injective, so two arities
are equal iff their renderings are).  Any f-string of another shape makes the unit
inconclusive (the encoding does not apply).  Each query is written as SMT-LIB2 text and
decided by z3 (wheel, in-process, with an explicit length bound) and by the cvc5 binary
(unbounded, --strings-exp); `unsat` from a solver = the property holds within that
solver's bound; `sat` yields a model that is replayed against the real engine.
"""
import ast
import os
import subprocess
import tempfile
import time


def key_templates():
    """[(function name, [parts])] with parts: ('name',) | ('lit', text) | ('arity',)"""
    import yldprolog.engine as engine
    tree = ast.parse(open(engine.__file__).read())
    out = []
    for node in ast.walk(tree):
        if isinstance(node, ast.FunctionDef) and node.name in ('query', 'register_function'):
            for n in ast.walk(node):
                if isinstance(n, ast.JoinedStr):
                    parts = []
                    for v in n.values:
                        if isinstance(v, ast.Constant) and isinstance(v.value, str):
                            parts.append(('lit', v.value))
                        elif isinstance(v, ast.FormattedValue) and v.conversion == -1 and v.format_spec is None:
                            if isinstance(v.value, ast.Name) and v.value.id == 'name':
                                parts.append(('name',))
                            elif isinstance(v.value, ast.Name) and v.value.id == 'arity':
                                parts.append(('arity',))
                            elif (isinstance(v.value, ast.Call) and isinstance(v.value.func, ast.Name) and v.value.func.id == 'len'
                                  and len(v.value.args) == 1 and isinstance(v.value.args[0], ast.Name) and v.value.args[0].id == 'args'):
                                parts.append(('arity',))
                            else:
                                parts.append(('other', ast.dump(v.value)))
                        else:
                            parts.append(('other', ast.dump(v)))
                    out.append((node.name, parts))
    return out


def smt_str(s):
    out = []
    for ch_ in s:
        o = ord(ch_)
        if 32 <= o < 127 and ch_ not in '"\\':
            out.append(ch_)
        elif ch_ == '"':
            out.append('""')
        else:
            out.append('\\u{%x}' % o)
    return '"' + ''.join(out) + '"'


def term(parts, name, d):
    xs = []
    for p in parts:
        if p[0] == 'lit':
            xs.append(smt_str(p[1]))
        elif p[0] == 'name':
            xs.append(name)
        elif p[0] == 'arity':
            xs.append(d)
        else:
            raise ValueError('f-string part outside the encoding: %r' % (p,))
    if len(xs) == 1:
        return xs[0]
    return '(str.++ %s)' % ' '.join(xs)


DIGITS = '(re.union (str.to_re "0") (re.++ (re.range "1" "9") (re.* (re.range "0" "9"))))'


def run_z3(smt, timeout_s=60):
    import z3
    t0 = time.perf_counter()
    s = z3.Solver()
    s.set('timeout', int(timeout_s * 1000))
    try:
        s.from_string(smt)
    except z3.Z3Exception as e:
        return 'error: %s' % str(e)[:200], None, time.perf_counter() - t0
    r = s.check()
    model = None
    if str(r) == 'sat':
        m = s.model()
        model = {d.name(): str(m[d]).strip('"') for d in m.decls()}
    return str(r), model, time.perf_counter() - t0


def run_cvc5(smt, timeout_s=60):
    t0 = time.perf_counter()
    fd, path = tempfile.mkstemp(suffix='.smt2')
    try:
        with os.fdopen(fd, 'w') as f:
            f.write('(set-logic QF_SLIA)\n(set-option :produce-models true)\n' + smt + '\n(check-sat)\n')
        try:
            p = subprocess.run(['cvc5', '--strings-exp', '--tlimit=%d' % int(timeout_s * 1000), path],
                               capture_output=True, text=True, timeout=timeout_s + 10)
            out = (p.stdout + p.stderr).strip()
        except (subprocess.TimeoutExpired, FileNotFoundError) as e:
            return 'unavailable: %s' % type(e).__name__, time.perf_counter() - t0
    finally:
        os.unlink(path)
    if '(error' in out or 'error' in out.lower():
        return 'error: ' + out[:200], time.perf_counter() - t0
    first = out.splitlines()[0] if out else 'no output'
    return first, time.perf_counter() - t0


def decide(smt_core, bound_vars=(), z3_len_bound=12, timeout_s=60):
    """returns dict(z3=..., cvc5=..., verdict in {'unsat','sat','inconclusive'}, model)"""
    bounded = smt_core + ''.join('\n(assert (<= (str.len %s) %d))' % (v, z3_len_bound) for v in bound_vars)
    rz, model, tz = run_z3(bounded, timeout_s)
    rc, tc = run_cvc5(smt_core, timeout_s)
    verdict = 'inconclusive'
    if rz == 'sat':
        verdict = 'sat'
    elif rz == 'unsat' and rc in ('unsat',):
        verdict = 'unsat'
    elif rz == 'unsat' and not rc.startswith('sat'):
        verdict = 'unsat-bounded'        # cvc5 unknown/timeout/unavailable: only the z3 bound is claimed
    elif rc.startswith('sat'):
        verdict = 'disagree' if rz == 'unsat' else 'sat-cvc5'
    return dict(z3=rz, z3_s=round(tz, 3), cvc5=rc, cvc5_s=round(tc, 3), verdict=verdict, model=model,
                z3_len_bound=z3_len_bound)
