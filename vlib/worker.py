"""Worker process: runs a batch of work units of one obligation module and prints one JSON
line per unit (prefixed with 'RESULT ').  Started by vlib.runner."""
import importlib
import json
import os
import sys
import time
import traceback

from . import ch


from .ch import DirectUnit  # noqa: E402  (kept here for backwards references)


def _jsonable(x):
    try:
        json.dumps(x)
        return x
    except Exception:
        return repr(x)


def run_unit(mod, unit):
    t0 = time.perf_counter()
    res = dict(id=unit['id'], ob=unit.get('ob', ''), bounds=unit.get('bounds', ''))
    try:
        h = mod.build(unit)
    except Exception:
        res.update(verdict='harness_error', detail='build failed: ' + traceback.format_exc()[-1500:])
        return res
    if isinstance(h, DirectUnit):
        try:
            res.update(h.run())
        except Exception:
            res.update(verdict='harness_error', detail='direct unit failed: ' + traceback.format_exc()[-1500:])
        res['wall_s'] = round(time.perf_counter() - t0, 2)
        return res
    timeout = float(unit.get('timeout', 60))
    nt = [0]
    info = getattr(h, 'info', None)
    body = h.body

    def counted(*a):
        r = body(*a)
        if r == 0:
            nt[0] += 1
        return r
    h.body = counted
    h._fns = {}
    r = ch.run_condition(h, "_ != 2", timeout, unit.get('per_path_timeout'))
    # A counterexample that does not replay natively can be an artefact of CrossHair's string modelling; exclude that
    # exact input and search again (at most 3 times) so that a real counterexample behind it is still found.
    spurious = []
    while r['state'] in ('POST_FAIL', 'EXEC_ERR') and r['args'] is not None and len(spurious) < 3:
        try:
            if info is not None:
                info.clear()
            code0 = h.run_native(r['args'])
        except Exception:
            break
        if code0 == 2 or (info and info.get('not_end_to_end')):
            break
        spurious.append(r['args'])
        clause = ' and '.join('%s == %r' % (k, v) for k, v in r['args'].items())
        h.extra_pre = list(h.extra_pre) + ['not (%s)' % clause]
        h._fns = {}
        r = ch.run_condition(h, "_ != 2", timeout, unit.get('per_path_timeout'))
    if spurious:
        res['spurious_counterexamples_excluded'] = _jsonable(spurious)
    h.body = body
    res.update(state=r['state'], paths=r['paths'], solver_s=r['solver_s'], solver_calls=r['solver_calls'],
               cpu_s=r['cpu_s'], nontrivial_paths=nt[0])
    if r['state'] == 'CONFIRMED':
        if nt[0] == 0:
            res.update(verdict='inconclusive', detail='vacuous: no explored path was non-trivial')
        else:
            # vacuity twin: a non-trivial path must be found as a counterexample of `_ != 0`
            h._fns = {}
            tw = ch.run_condition(h, "_ != 0", max(10.0, timeout / 2), unit.get('per_path_timeout'))
            res['solver_s'] = round(res['solver_s'] + tw['solver_s'], 3)
            res['twin_state'] = tw['state']
            if tw['state'] == 'POST_FAIL' and tw['args'] is not None:
                try:
                    code = h.run_native(tw['args'])
                except Exception:
                    code = 'raised ' + traceback.format_exc()[-300:]
                res['sample'] = _jsonable(dict(args=tw['args'], native_result=code,
                                               note=(dict(info) if info else None)))
                if code == 0:
                    res['verdict'] = 'discharged'
                else:
                    res.update(verdict='inconclusive', detail='twin witness did not replay as non-trivial: %r' % (code,))
            else:
                res.update(verdict='inconclusive', detail='vacuity twin not refuted (%s)' % tw['state'])
    elif r['state'] in ('POST_FAIL', 'EXEC_ERR', 'POST_ERR'):
        res['message'] = r['message'][:600]
        args = r['args']
        if args is None:
            res.update(verdict='harness_error', detail='could not parse counterexample: ' + r['message'][:300]
                       + ' ' + r.get('traceback', '')[-600:])
        else:
            res['counterexample'] = _jsonable(args)
            try:
                if info is not None:
                    info.clear()
                code = h.run_native(args)
                exc = None
            except Exception:
                code, exc = None, traceback.format_exc()[-800:]
            res['replay'] = _jsonable(dict(native_result=code, exception=exc, info=(dict(info) if info else None)))
            if code == 2:
                res['verdict'] = 'violated'
            elif info and info.get('not_end_to_end'):
                # a unit-level counterexample against a stubbed collaborator that the end-to-end replay through the real
                # collaborator does not confirm: the stub's contract does not cover this implementation -> inconclusive
                res.update(verdict='inconclusive', detail='unit-level counterexample not confirmed end-to-end: %s' % info.get('reason', ''))
            else:
                res.update(verdict='harness_error',
                           detail='counterexample does not reproduce natively (result %r) %s' % (code, r.get('traceback', '')[-600:]))
    else:
        res.update(verdict='inconclusive', detail='%s %s' % (r['state'], r['message'][:200]))
    res['wall_s'] = round(time.perf_counter() - t0, 2)
    return res


def main():
    modname = sys.argv[1]
    units = json.loads(sys.stdin.read())
    mod = importlib.import_module(modname)
    for u in units:
        try:
            res = run_unit(mod, u)
        except (KeyboardInterrupt, SystemExit):
            raise
        except BaseException:
            res = dict(id=u['id'], verdict='harness_error', detail=traceback.format_exc()[-1500:])
        sys.stdout.write('RESULT ' + json.dumps(res) + '\n')
        sys.stdout.flush()


if __name__ == '__main__':
    main()
