"""Stubs and helpers for driving the visitor / compiler / generator units with symbolic token text
(C11, C12): token stubs, a visitor class without the debug wrapper, LinearSet (a set whose
membership test is a chain of == comparisons, so that a symbolic string is not hashed and
realised), Python-token recognisers that work on symbolic strings."""
import keyword

import yldprolog.yp_prolog_visitor as vis
import yldprolog.yp_generator as gen
from .control import Ctx

UC = 'ABCDEFGHIJKLMNOPQRSTUVWXYZ'
LC = 'abcdefghijklmnopqrstuvwxyz'
DIG = '0123456789'
IDCHARS = UC + LC + DIG + '_'


class Tok:
    """stands for an ANTLR terminal node"""

    def __init__(self, text):
        self._t = text

    def getText(self):
        return self._t


class AtomCtx:
    """stands for prologParser.AtomContext with exactly one alternative present"""

    def __init__(self, numeral=None, string=None, atom=None):
        self._n, self._s, self._a = numeral, string, atom

    def NUMERAL(self):
        return None if self._n is None else Tok(self._n)

    def STRING(self):
        return None if self._s is None else Tok(self._s)

    def ATOM(self):
        return None if self._a is None else Tok(self._a)


class PlainVisitor(vis.YPPrologVisitor):
    """the real visitor without the debug wrapper around visit* (which formats every result eagerly)"""
    __getattribute__ = object.__getattribute__


def new_visitor():
    v = PlainVisitor.__new__(PlainVisitor)
    v.context = Ctx
    v.anonymousVariableCounter = 0
    v.debug_indent = 0
    return v


class LinearSet:
    """same contents as the wrapped set; `in` compares with == one by one (symbolic friendly)"""

    def __init__(self, items):
        self._items = sorted(items)

    def __contains__(self, x):
        for it in self._items:
            if x == it:
                return True
        return False

    def __iter__(self):
        return iter(self._items)

    def __len__(self):
        return len(self._items)

    def __or__(self, other):
        return LinearSet(list(self._items) + [x for x in other if x not in self._items])


class linear_sets:
    """context manager: every module-level set/frozenset of strings in the visitor and generator
    modules is replaced by a LinearSet with the same contents for the duration"""

    def __enter__(self):
        self.saved = []
        for m in (vis, gen):
            for n, v in list(vars(m).items()):
                if isinstance(v, (set, frozenset)) and all(isinstance(x, str) for x in v):
                    self.saved.append((m, n, v))
                    setattr(m, n, LinearSet(v))
        return self

    def __exit__(self, *a):
        for m, n, v in self.saved:
            setattr(m, n, v)


def all_in(s, chars):
    # index-based on purpose: with CrossHair 0.0.110, `for c in s` over a symbolic string that was
    # compared (==) with a longer concrete string yields more items than len(s)
    for i in range(len(s)):
        if s[i] not in chars:
            return False
    return True


def is_ascii_identifier(s):
    if len(s) == 0:
        return False
    if s[0] in DIG:
        return False
    return all_in(s, IDCHARS)


def reserved_python_names():
    return list(keyword.kwlist) + ['__debug__']


def engine_context_names():
    from yldprolog.engine import YP
    yp = YP()
    fresh = YP()
    fresh.eval_context = {}
    fresh._set_default_eval_context()
    return sorted(k for k in fresh.eval_context.keys())


def is_generated_name(s):
    """names the code generator itself uses inside a clause function: argN lN xN doBreak cutIfN _"""
    if s == 'doBreak' or s == '_':
        return True
    for prefix in ('arg', 'cutIf', 'l', 'x'):
        if s.startswith(prefix):
            rest = s[len(prefix):]
            if len(rest) > 0 and all_in(rest, DIG):
                return True
    return False


def is_decimal_literal(s):
    if len(s) == 0:
        return False
    if not all_in(s, DIG):
        return False
    return s == '0' or s[0] != '0'


def digits_value(s):
    v = 0
    for i in range(len(s)):
        c = s[i]
        d = 0
        for k in range(10):
            if c == DIG[k]:
                d = k
        v = v * 10 + d
    return v


class _Opaque:
    def __str__(self):
        return '<ast>'
    __repr__ = __str__

    def __format__(self, spec):
        return '<ast>'


_OPAQUE = _Opaque()


class opaque_ast_formatting:
    """The compiler formats AST nodes eagerly for debug messages (f-strings evaluated even when
    debugging is off).  Under CrossHair, format() deep-realises its argument, which would pin every
    symbolic name inside the node.  CrossHair's official hook __ch_deep_realize__ is set on the
    yp_prolog_visitor node classes (except variable terms, whose str() is used for code generation)
    so that such a format() sees an opaque placeholder; the formatted text only ever reaches _debug."""

    def __enter__(self):
        self.patched = []
        for name in dir(vis):
            cls = getattr(vis, name)
            if isinstance(cls, type) and cls.__module__ == vis.__name__ and not issubclass(cls, vis.VariableTerm) \
                    and '__ch_deep_realize__' not in cls.__dict__ and not issubclass(cls, vis.prologVisitor):
                cls.__ch_deep_realize__ = lambda self, memo: _OPAQUE
                self.patched.append(cls)
        for cls in (gen.CutIfPredicate,) if hasattr(gen, 'CutIfPredicate') else ():
            if '__ch_deep_realize__' not in cls.__dict__:
                cls.__ch_deep_realize__ = lambda self, memo: _OPAQUE
                self.patched.append(cls)
        return self

    def __exit__(self, *a):
        for cls in self.patched:
            try:
                del cls.__ch_deep_realize__
            except AttributeError:
                pass
