"""Shared machinery for C05 (cut) and C06 (disjunction / if-then-else / negation):
body-tree generator, the symbolic 'world' of leaf goals, and the harness that runs a
compiled clause body against refprolog's control semantics.

Program under test (compiled with the CURRENT compiler from text printed from the tree):

    t :- BODY.          leaves of BODY: a b c d w x y z   (stub predicates, symbolic counts)
    t :- e.             e, f, g: fixed single-solution stubs (context)
    top :- (t ; g), f.

so later clauses (e), the caller's alternative (g) and the continuation (f) are observable.
Every answer is identified by the stack of (leaf name, solution index) pairs active at it.
"""
import itertools
import random

from crosshair.tracers import NoTracing

from . import ch
from .refprolog import Interp, Cell, goal_text, goal_text_full
from .ch import DirectUnit

LEAF_NAMES = 'abcdwxyzijkmnopq'
CONTEXT = 'efgh'


def trees(n, cut_ok=True):
    """all body trees with exactly n operator nodes over leaves call/true/fail/cut;
    cuts only in transparent positions (not in conditions or under \\+)"""
    if n == 0:
        yield ('call',)
        yield ('true',)
        yield ('fail',)
        if cut_ok:
            yield ('cut',)
        return
    for t in trees(n - 1, False):
        yield ('not', t)
    for k in range(n):
        for op in ('and', 'or', 'it'):
            for a in trees(k, cut_ok and op != 'it'):
                if op == 'or' and a[0] == 'it':
                    continue          # (C -> T) ; E is the ite node below
                for b in trees(n - 1 - k, cut_ok):
                    yield (op, a, b)
    for k1 in range(n):
        for k2 in range(n - k1):
            k3 = n - 1 - k1 - k2
            if k3 < 0:
                continue
            for c in trees(k1, False):
                for t in trees(k2, cut_ok):
                    for e in trees(k3, cut_ok):
                        yield ('ite', c, t, e)


def name_calls(t, ctr=None):
    """give every call leaf its own name (by position) -> refprolog goal"""
    if ctr is None:
        ctr = [0]
    if t[0] == 'call':
        nm = LEAF_NAMES[ctr[0] % len(LEAF_NAMES)]
        ctr[0] += 1
        return ('call', ('a', nm))
    if len(t) == 1:
        return t
    return (t[0],) + tuple(name_calls(x, ctr) for x in t[1:])


def has_cut(t):
    """for trees as produced by trees()/sample_trees() (before name_calls)"""
    return t[0] == 'cut' or any(has_cut(x) for x in t[1:])


def n_ops(t):
    if len(t) == 1 or t[0] == 'call':
        return 0
    return 1 + sum(n_ops(x) for x in t[1:])


def all_trees_upto(n):
    out = []
    for k in range(n + 1):
        out.extend(trees(k))
    return out


def sample_trees(nops, count, rng):
    """random trees with exactly nops operators (by random construction, not by enumeration)"""
    out = []
    seen = set()
    tries = 0
    while len(out) < count and tries < count * 50:
        tries += 1
        t = _rand_tree(nops, True, rng)
        if t is not None and t not in seen:
            seen.add(t)
            out.append(t)
    return out


def _rand_tree(n, cut_ok, rng):
    if n == 0:
        leaves = ['call', 'call', 'call', 'true', 'fail'] + (['cut', 'cut'] if cut_ok else [])
        return (rng.choice(leaves),)
    op = rng.choice(['not', 'and', 'and', 'or', 'it', 'ite', 'ite'])
    if op == 'not':
        return ('not', _rand_tree(n - 1, False, rng))
    if op in ('and', 'or', 'it'):
        k = rng.randint(0, n - 1)
        a = _rand_tree(k, cut_ok and op != 'it', rng)
        b = _rand_tree(n - 1 - k, cut_ok, rng)
        if op == 'or' and a[0] == 'it':
            return ('ite', a[1], a[2], b)      # (C -> T) ; E  reads as if-then-else
        return (op, a, b)
    k1 = rng.randint(0, n - 1)
    k2 = rng.randint(0, n - 1 - k1)
    k3 = n - 1 - k1 - k2
    return ('ite', _rand_tree(k1, False, rng), _rand_tree(k2, cut_ok, rng), _rand_tree(k3, cut_ok, rng))


class World:
    """Behaviour of the leaf goals: the number of solutions of an invocation is a fresh
    symbolic int per (goal name, answer stack at the time of the call), handed out in
    order of first demand; context goals e f g h have exactly one solution."""

    def __init__(self, counts):
        self.counts = counts
        self.memo = {}
        self.stack = []
        self.next = 0
        self.overflow = False

    def count(self, name):
        if name in CONTEXT:
            return 1
        key = (name, tuple(self.stack))
        if key not in self.memo:
            if self.next >= len(self.counts):
                self.overflow = True
                return 0
            self.memo[key] = self.counts[self.next]
            self.next += 1
        return self.memo[key]

    def leaf(self, name):
        n = self.count(name)
        j = 0
        while j < n:
            self.stack.append((name, j))
            try:
                yield False
            finally:
                self.stack.pop()
            j += 1


def source_for(goal, spelling, mode='plain'):
    body = goal_text(goal) if spelling == 'min' else goal_text_full(goal)
    src = "t :- %s.\nt :- e.\ntop :- (t ; g), f.\n" % body
    return src


class CompileFailure(DirectUnit):
    def __init__(self, src, err):
        self.src = src
        self.err = err
        self.info = {'reason': 'compiler failed on a supported body: ' + err, 'source': src}

    def run(self):
        return dict(verdict='violated', counterexample={'source': self.src}, state='COMPILE_ERR',
                    replay=dict(native_result=2, info=self.info), message=self.err)

    def run_native(self, args):
        try:
            code = _compile(args['source'])
            compile(code, 'gen', 'exec')
            return 0
        except Exception as e:
            self.ch.note(info, 'compiler failed: %s: %s', type(e).__name__, str(e)[:200])
            return 2


class Ctx:
    debug_filename = ''
    debug_parser = False
    debug_generator = False
    current_source_file = ''
    outf = None


def _compile(src):
    from yldprolog.compiler import compile_prolog_from_string
    return compile_prolog_from_string(src, Ctx)


def build_body_unit(u):
    """u: dict(id, goal (refprolog goal with named leaves), spelling, ncounts, K, cap)"""
    from yldprolog.engine import YP
    goal = _tuplify(u['goal'])
    src = source_for(goal, u.get('spelling', 'min'))
    extra_src = u.get('second_script')
    try:
        code = _compile(src)
        compile(code, 'gen', 'exec')
        code2 = None
        if extra_src:
            code2 = _compile(extra_src)
            compile(code2, 'gen2', 'exec')
    except Exception as e:
        return CompileFailure(src, '%s: %s' % (type(e).__name__, str(e)[:200]))
    N = int(u.get('ncounts', 12))
    K = int(u.get('K', 2))
    cap = int(u.get('cap', 40))
    spec = [('c%d' % i, 'int', '0 <= c%d <= %d' % (i, K)) for i in range(N)]
    info = {'source': src}
    clauses = [(('a', 't'), goal), (('a', 't'), ('call', ('a', 'e')))]
    top_body = ('and', ('or', ('call', ('a', 't')), ('call', ('a', 'g'))), ('call', ('a', 'f')))

    def body(vals):
        ch.install_registry(False)
        w = World(vals)
        yp = ch.new_engine()
        ch.load(yp, code)
        if code2 is not None:
            ch.load(yp, code2)
        for nm in LEAF_NAMES + CONTEXT:
            yp.register_function(nm, (lambda nm: (lambda: w.leaf(nm)))(nm))
        got = []
        try:
            for _ in yp.query('top', []):
                got.append(tuple(w.stack))
                if len(got) > cap:
                    break
        except Exception as e:
            ch.note(info, 'query raised %s: %s', type(e).__name__, str(e)[:200])
            return ch.VIOLATED
        if w.stack:
            ch.note(info, 'leaf generators still active after the query ended: %r', w.stack,)
            return ch.VIOLATED
        # reference run against the same world
        interp = Interp(clauses)
        for nm in LEAF_NAMES + CONTEXT:
            interp.foreign[(nm, 0)] = (lambda nm: (lambda it, args, s: _ref_leaf(w, nm, s)))(nm)
        if code2 is not None:
            # a second definition of t/0 loaded with overwrite=False runs after the first,
            # whatever the first one cut (C05.c / C08)
            ref_iter = _ref_combined(interp, w, top_body)
        else:
            interp.add_clause((('a', 'top'), top_body))
            ref_iter = interp.query('top', [])
        exp = []
        for _ in ref_iter:
            exp.append(tuple(w.stack))
            if len(exp) > cap:
                break
        if w.overflow:
            return ch.HOLDS_TRIVIAL
        if got != exp:
            ch.note(info, 'answers %r differ from reference %r', got, exp)
            return ch.VIOLATED
        return ch.HOLDS_NONTRIVIAL
    h = ch.harness_from_spec(u['id'], spec, {}, body, info=info)
    return h


def _ref_leaf(w, nm, s):
    for _ in w.leaf(nm):
        yield s


def _ref_combined(interp, w, top_body):
    """top :- (t ; g), f.  where t is the chain of two separately loaded definitions:
    first definition (with its own cut scope), then the second definition  t :- h."""
    def t_chain(s):
        yield from interp.query('t', [], s)
        yield from _ref_leaf(w, 'h', s)
    for s1 in itertools.chain(t_chain({}), _ref_leaf(w, 'g', {})):
        yield from _ref_leaf(w, 'f', s1)


def _tuplify(x):
    if isinstance(x, list):
        return tuple(_tuplify(y) for y in x)
    return x
