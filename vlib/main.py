"""vcheck: decide one property by running its obligation units (CrossHair / SMT) in a
process pool, replaying counterexamples, and writing evidence/<id>.json.

Exit status: 0 nothing violated in what was explored; 1 replayed violation (VIOLATION line);
3 harness error (a counterexample that does not reproduce, a crashed unit builder, ...)."""
import argparse
import hashlib
import importlib
import json
import os
import subprocess
import sys
import time
from concurrent.futures import ThreadPoolExecutor

ROOT = os.path.dirname(os.path.dirname(os.path.abspath(__file__)))
STARTUP_S = 2.0


def _chunks(units, jobs):
    """Group units into batches: heavy units alone, light units together (a worker start
    costs ~2 s).  Order: heaviest first so that the tail is short."""
    units = sorted(units, key=lambda u: -float(u.get('weight', u.get('timeout', 60))))
    total = sum(float(u.get('weight', u.get('timeout', 60))) for u in units)
    target = max(8.0, total / (jobs * 4.0))
    batches, cur, acc = [], [], 0.0
    for u in units:
        w = float(u.get('weight', u.get('timeout', 60)))
        if cur and acc + w > target:
            batches.append(cur)
            cur, acc = [], 0.0
        cur.append(u)
        acc += w
    if cur:
        batches.append(cur)
    return batches


def _run_batch(modname, batch):
    budget = sum(float(u.get('timeout', 60)) * 2.5 + 30 for u in batch) + 60
    env = dict(os.environ, YLDPROLOG_VERIF='1', PYTHONDONTWRITEBYTECODE='1')
    env.setdefault('PYTHONHASHSEED', '0')
    results = {}
    proc = subprocess.Popen([sys.executable, '-m', 'vlib.worker', modname], stdin=subprocess.PIPE, stdout=subprocess.PIPE,
                            stderr=subprocess.PIPE, text=True, cwd=ROOT, env=env, start_new_session=True)
    _LIVE.add(proc)
    try:
        out, err = proc.communicate(json.dumps(batch), timeout=budget)
    except subprocess.TimeoutExpired:
        _kill(proc)
        out, err = proc.communicate()
        err = 'worker exceeded wall budget of %ds' % budget
    finally:
        _LIVE.discard(proc)
    for line in out.splitlines():
        if line.startswith('RESULT '):
            try:
                r = json.loads(line[7:])
                results[r['id']] = r
            except Exception:
                pass
    res = []
    for u in batch:
        if u['id'] in results:
            res.append(results[u['id']])
        else:
            res.append(dict(id=u['id'], ob=u.get('ob', ''), verdict='inconclusive',
                            detail='worker produced no result: ' + (err or '')[-400:]))
    return res


_LIVE = set()


def _kill(proc):
    import signal
    try:
        os.killpg(proc.pid, signal.SIGKILL)
    except Exception:
        try:
            proc.kill()
        except Exception:
            pass


def _kill_all(*a):
    for proc in list(_LIVE):
        _kill(proc)
    if a:
        os._exit(143)


def load_known():
    try:
        with open(os.path.join(ROOT, 'known_findings.json')) as f:
            return json.load(f)
    except FileNotFoundError:
        return dict(findings=[], fixed=[])


def match_known(known, prop, r):
    """A listed finding matches a violation if property and obligation agree and every
    key of its 'match' dict is found with that value in the counterexample (or unit id)."""
    for k in known.get('findings', []):
        if k.get('property') != prop:
            continue
        if k.get('unit') and k['unit'] not in r['id']:
            continue
        ce = r.get('counterexample') or {}
        if all(ce.get(a) == v for a, v in (k.get('match') or {}).items()):
            return k
    return None


def replay(prop, path):
    mod = importlib.import_module('obligations.' + prop)
    with open(path) as f:
        rec = json.load(f)
    h = mod.build(rec['unit'])
    info = getattr(h, 'info', None)
    code = h.run_native(rec['counterexample'])
    print('replay of %s unit %s' % (prop, rec['unit']['id']))
    print('  arguments: %r' % (rec['counterexample'],))
    print('  result: %r (2 = property violated)' % (code,))
    if info:
        for k, v in info.items():
            print('  %s: %s' % (k, v))
    if code == 2:
        print('VIOLATION property=%s replay=%s' % (prop, path))
        return 1
    return 0


def main(argv=None):
    ap = argparse.ArgumentParser()
    ap.add_argument('prop')
    ap.add_argument('--tier', default=os.environ.get('VERIF_TIER', 'quick'), choices=['quick', 'thorough'])
    ap.add_argument('--replay')
    ap.add_argument('--only', help='run only units whose id contains this substring')
    ap.add_argument('--jobs', type=int, default=min(16, os.cpu_count() or 4))
    ap.add_argument('--list', action='store_true')
    a = ap.parse_args(argv)
    prop = a.prop
    sys.path.insert(0, ROOT)
    import yldprolog
    assert os.path.realpath(yldprolog.__file__).startswith('/repo/src/'), yldprolog.__file__
    if a.replay:
        return replay(prop, a.replay)
    seed = int(os.environ.get('VERIF_SEED', '0') or 0)
    t0 = time.time()
    mod = importlib.import_module('obligations.' + prop)
    units = mod.units(a.tier, seed)
    if a.only:
        units = [u for u in units if a.only in u['id']]
    if a.list:
        for u in units:
            print(u['id'], u.get('timeout'), u.get('bounds', ''))
        return 0
    import atexit
    import signal
    atexit.register(_kill_all)
    signal.signal(signal.SIGTERM, _kill_all)
    batches = _chunks(units, a.jobs)
    results = []
    with ThreadPoolExecutor(a.jobs) as ex:
        for rs in ex.map(lambda b: _run_batch('obligations.' + prop, b), batches):
            results.extend(rs)
    known = load_known()
    by_id = {u['id']: u for u in units}
    counts = dict(discharged=0, violated=0, inconclusive=0, harness_error=0, known=0)
    violations, lines = [], []
    os.makedirs(os.path.join(ROOT, 'replays'), exist_ok=True)
    for r in results:
        v = r.get('verdict', 'inconclusive')
        if v == 'violated':
            k = match_known(known, prop, r)
            if k is not None:
                counts['known'] += 1
                lines.append('KNOWN-FINDING: property=%s %s' % (prop, k.get('what', '')))
                r['known_finding'] = k.get('what', '')
                continue
            counts['violated'] += 1
            tag = hashlib.sha1(r['id'].encode()).hexdigest()[:8]
            path = os.path.join('replays', '%s_%s.json' % (prop, tag))
            with open(os.path.join(ROOT, path), 'w') as f:
                json.dump(dict(property=prop, unit=by_id[r['id']], counterexample=r.get('counterexample'),
                               replay=r.get('replay'), message=r.get('message')), f, indent=1)
            r['replay_file'] = path
            violations.append((r, path))
        else:
            counts[v if v in counts else 'inconclusive'] += 1
    wall = time.time() - t0
    write_evidence(mod, prop, a.tier, seed, units, results, counts, wall)
    for ln in sorted(set(lines)):
        print(ln)
    print('%s tier=%s units=%d discharged=%d inconclusive=%d violated=%d known=%d harness_error=%d paths=%d wall=%.0fs'
          % (prop, a.tier, len(units), counts['discharged'], counts['inconclusive'], counts['violated'],
             counts['known'], counts['harness_error'], sum(r.get('paths', 0) for r in results), wall))
    for r in results:
        if r.get('verdict') in ('inconclusive', 'harness_error'):
            print('  %s %s: %s' % (r.get('verdict'), r['id'], (r.get('detail') or '')[:900].replace('\n', ' | ')))
    for r, path in violations:
        info = (r.get('replay') or {}).get('info')
        print('  counterexample %s: %r %s' % (r['id'], r.get('counterexample'), info or ''))
        print('VIOLATION property=%s replay=%s' % (prop, path))
    if violations:
        return 1
    if counts['harness_error']:
        return 3
    if counts['discharged'] == 0:
        print('no unit was discharged: the check is inconclusive as a whole', file=sys.stderr)
        return 3
    return 0


def write_evidence(mod, prop, tier, seed, units, results, counts, wall):
    paths = sum(r.get('paths', 0) for r in results)
    nontriv = sum(r.get('nontrivial_paths', 0) for r in results if r.get('verdict') == 'discharged')
    samples = []
    for r in results:
        if r.get('sample') and len(samples) < 12:
            samples.append(dict(unit=r['id'], bounds=r.get('bounds', ''), nontrivial_witness=r['sample']))
    for r in results:
        if r.get('verdict') == 'violated' or r.get('known_finding'):
            samples.append(dict(unit=r['id'], counterexample=r.get('counterexample'), replay=r.get('replay'),
                                known_finding=r.get('known_finding')))
    if not samples:
        samples = [dict(unit=r['id'], state=r.get('state'), detail=r.get('detail')) for r in results[:3]]
    per_unit = [dict(id=r['id'], ob=r.get('ob', ''), verdict=r.get('verdict'), state=r.get('state'),
                     paths=r.get('paths', 0), nontrivial_paths=r.get('nontrivial_paths', 0),
                     solver_s=r.get('solver_s', 0), cpu_s=r.get('cpu_s', 0), bounds=r.get('bounds', ''),
                     detail=(r.get('detail') or '')[:300], queries=r.get('queries'))
                for r in results]
    ev = dict(
        property_id=prop, tier=tier, seed=seed, level='other',
        coverage=dict(
            explanation=getattr(mod, 'EXPLANATION', '') or
            'bounded symbolic execution of the real code with CrossHair/z3; one solver verdict per work unit',
            obligations=len(units), discharged=counts['discharged'], inconclusive=counts['inconclusive'],
            known_findings=counts['known'], harness_errors=counts['harness_error'],
            evaluations=max(paths, sum(r.get('solver_queries', 0) for r in results)),
            distinct_nontrivial=nontriv + sum(r.get('nontrivial', 0) for r in results if r.get('verdict') == 'discharged'),
            rule=getattr(mod, 'RULE', 'evaluations = execution paths explored by CrossHair (each path stands for all '
                         'argument values satisfying its path condition) plus direct SMT queries; a path is '
                         'non-trivial when the harness returned HOLDS_NONTRIVIAL as defined per obligation'),
            samples=samples,
            exhaustive=(counts['inconclusive'] == 0 and counts['harness_error'] == 0),
            functions_encoded=getattr(mod, 'FUNCTIONS', []),
            bounds=getattr(mod, 'BOUNDS', {}).get(tier, ''),
            outside_claim=getattr(mod, 'OUTSIDE', []),
            stubs=getattr(mod, 'STUBS', []),
            solver_s=round(sum(r.get('solver_s', 0) or 0 for r in results), 2),
            solver_calls=sum(r.get('solver_calls', 0) or 0 for r in results),
            cpu_s=round(sum(r.get('cpu_s', 0) or 0 for r in results), 1),
            units=per_unit,
            validation=[r.get('validation') for r in results if r.get('validation')],
        ),
        assumptions=getattr(mod, 'ASSUMPTIONS', []) + [
            'CPython 3.12 semantics as modelled by CrossHair 0.0.110; z3 sound',
            'the claim is bounded: see coverage.bounds and coverage.outside_claim'],
        wall_s=round(wall, 1),
        violations=counts['violated'],
    )
    os.makedirs(os.path.join(ROOT, 'evidence'), exist_ok=True)
    with open(os.path.join(ROOT, 'evidence', prop + '.json'), 'w') as f:
        json.dump(ev, f, indent=1, default=repr)


if __name__ == '__main__':
    sys.exit(main())
