"""refprolog - a small, independent reference interpreter for the Prolog subset that
yldprolog supports.  Nothing in here imports yldprolog.

Terms (vlib.terms):  ('v', id) | ('c', const) | ('a', name) | ('f', name, args)
Goals:  ('call', term) ('and', a, b) ('or', a, b) ('ite', c, t, e) ('it', c, t) ('not', g)
        ('true',) ('fail',) ('cut',)
Clauses: (head term, body goal); variables in clauses are ('v', <str name>) and are renamed
apart at every activation.

Semantics: depth-first, left-to-right SLD resolution; ISO cut scope (cut is local to a
clause body, transparent in the branches of ; and the then/else of ->, opaque in
conditions, \\+ and call/N); dynamic facts of a name/arity are tried before its rules
(C08); logical update view for facts (C14); stored facts are copies (C13).
"""
from .terms import walk, runify, Cyclic


class StepLimit(Exception):
    pass


class Cell:
    __slots__ = ('cut',)

    def __init__(self):
        self.cut = False


class Fact:
    __slots__ = ('args',)

    def __init__(self, args):
        self.args = args


def term_vars(t, acc):
    if t[0] == 'v':
        if t[1] not in acc:
            acc.append(t[1])
    elif t[0] == 'f':
        for a in t[2]:
            term_vars(a, acc)
    return acc


def rename(t, m, interp):
    if t[0] == 'v':
        if t[1] not in m:
            m[t[1]] = ('v', interp.fresh())
        return m[t[1]]
    if t[0] == 'f':
        return ('f', t[1], tuple([rename(a, m, interp) for a in t[2]]))
    return t


def rename_goal(g, m, interp):
    k = g[0]
    if k == 'call':
        return ('call', rename(g[1], m, interp))
    if k in ('and', 'or', 'it'):
        return (k, rename_goal(g[1], m, interp), rename_goal(g[2], m, interp))
    if k == 'ite':
        return (k, rename_goal(g[1], m, interp), rename_goal(g[2], m, interp), rename_goal(g[3], m, interp))
    if k == 'not':
        return (k, rename_goal(g[1], m, interp))
    return g


def full_resolve(t, s):
    """t with the substitution applied at every depth (variables keep their ids)"""
    t = walk(t, s)
    if t[0] == 'f':
        return ('f', t[1], tuple([full_resolve(a, s) for a in t[2]]))
    return t


def mklist(items, tail=('a', '[]')):
    r = tail
    for x in reversed(items):
        r = ('f', '.', (x, r))
    return r


class Interp:
    def __init__(self, clauses=(), max_steps=20000):
        self.rules = {}          # (name, arity) -> list of (head args, body), in load order
        self.facts = {}          # (name, arity) -> list of Fact   (replaced, never mutated)
        self.foreign = {}        # (name, arity) or (name, None) -> fn(interp, args, s) yielding s
        self._next = 0
        self.steps = 0
        self.max_steps = max_steps
        for c in clauses:
            self.add_clause(c)

    def fresh(self):
        self._next += 1
        return self._next

    def new_var(self):
        return ('v', self.fresh())

    def add_clause(self, clause):
        head, body = clause
        if head[0] == 'a':
            key, hargs = (head[1], 0), ()
        else:
            key, hargs = (head[1], len(head[2])), head[2]
        self.rules.setdefault(key, []).append((hargs, body))

    # ---- database ------------------------------------------------------------------
    def assert_fact(self, name, args, s, append=True):
        m = {}
        stored = tuple([rename(full_resolve(a, s), m, self) for a in args])
        cur = self.facts.get((name, len(args)), [])
        self.facts[(name, len(args))] = cur + [Fact(stored)] if append else [Fact(stored)] + cur

    def _goal_parts(self, t, s):
        t = walk(t, s)
        if t[0] == 'a':
            return t[1], ()
        if t[0] == 'f':
            return t[1], t[2]
        raise TypeError('goal is not callable: %r' % (t,))

    def _match_fact(self, fact, args, s):
        m = {}
        fargs = [rename(a, m, self) for a in fact.args]
        for x, y in zip(args, fargs):
            s = runify(x, y, s)
            if s is None:
                return None
        return s

    # ---- resolution ----------------------------------------------------------------
    def solve(self, g, s, cell):
        self.steps += 1
        if self.steps > self.max_steps:
            raise StepLimit()
        k = g[0]
        if k == 'true':
            yield s
        elif k == 'fail':
            return
        elif k == 'cut':
            yield s
            cell.cut = True
        elif k == 'and':
            for s1 in self.solve(g[1], s, cell):
                yield from self.solve(g[2], s1, cell)
                if cell.cut:
                    return
        elif k == 'or':
            yield from self.solve(g[1], s, cell)
            if cell.cut:
                return
            yield from self.solve(g[2], s, cell)
        elif k == 'ite' or k == 'it':
            found = False
            it = self.solve(g[1], s, Cell())
            for s1 in it:
                # the condition stays suspended at its first solution while the then-branch
                # runs (foreign goals observe this, like bindings), and is abandoned afterwards
                found = True
                yield from self.solve(g[2], s1, cell)
                break
            it.close()
            if not found and k == 'ite':
                yield from self.solve(g[3], s, cell)
        elif k == 'not':
            found = False
            it = self.solve(g[1], s, Cell())
            for _ in it:
                found = True
                break
            it.close()
            if not found:
                yield s
        elif k == 'call':
            yield from self.call(g[1], s)
        else:
            raise ValueError(g)

    def call(self, t, s, extra=()):
        name, args = self._goal_parts(t, s)
        args = tuple(args) + tuple(extra)
        n = len(args)
        # control constructs written as terms are not supported by yldprolog either
        if name == '=' and n == 2:
            s1 = runify(args[0], args[1], s)
            if s1 is not None:
                yield s1
            return
        if name == '\\=' and n == 2:
            if runify(args[0], args[1], s) is None:
                yield s
            return
        # dynamic facts first (snapshot = logical update view)
        for fact in self.facts.get((name, n), []):
            s1 = self._match_fact(fact, args, s)
            if s1 is not None:
                yield s1
        if name == 'call' and n >= 1:
            yield from self.call(args[0], s, args[1:])
            return
        if name == 'once' and n == 1:
            it = self.call(args[0], s)
            for s1 in it:
                yield s1
                break
            it.close()
            return
        if name == 'findall' and n == 3:
            results = []
            for s1 in self.call(args[1], s):
                results.append(full_resolve(args[0], s1))
            s1 = runify(args[2], mklist(results), s)
            if s1 is not None:
                yield s1
            return
        if name in ('assertz', 'asserta') and n == 1:
            fname, fargs = self._goal_parts(args[0], s)
            self.assert_fact(fname, fargs, s, append=(name == 'assertz'))
            yield s
            return
        if name == 'retract' and n == 1:
            fname, fargs = self._goal_parts(args[0], s)
            key = (fname, len(fargs))
            for fact in self.facts.get(key, []):
                if not any(f is fact for f in self.facts.get(key, [])):
                    continue
                s1 = self._match_fact(fact, fargs, s)
                if s1 is not None:
                    self.facts[key] = [f for f in self.facts.get(key, []) if f is not fact]
                    yield s1
            return
        if name == 'retractall' and n == 1:
            fname, fargs = self._goal_parts(args[0], s)
            key = (fname, len(fargs))
            if key in self.facts:
                self.facts[key] = [f for f in self.facts[key] if self._match_fact(f, fargs, s) is None]
            yield s
            return
        fn = self.foreign.get((name, n))
        if fn is not None:
            yield from fn(self, args, s)
            return
        if (name, n) not in self.rules:
            fn = self.foreign.get((name, None))
            if fn is not None:
                yield from fn(self, args, s)
            return
        for hargs, body in self.rules[(name, n)]:
            m = {}
            h = [rename(a, m, self) for a in hargs]
            b = rename_goal(body, m, self)
            s1 = s
            for x, y in zip(args, h):
                s1 = runify(x, y, s1)
                if s1 is None:
                    break
            if s1 is None:
                continue
            cell = Cell()
            yield from self.solve(b, s1, cell)
            if cell.cut:
                break

    def query(self, name, args, s=None):
        t = ('a', name) if not args else ('f', name, tuple(args))
        return self.call(t, s if s is not None else {})


# ---- printing reference programs as Prolog text -------------------------------------
import re as _re
_PLAIN_ATOM = _re.compile(r'[a-z][A-Za-z0-9_]*\Z')


def atom_text(name):
    if name == '[]':
        return '[]'
    if _PLAIN_ATOM.match(name) and name not in ('true', 'fail'):
        return name
    return "'" + name.replace("'", "\\'") + "'"


def term_text(t):
    k = t[0]
    if k == 'v':
        nm = str(t[1])
        return '_' if nm.startswith('_anon') else nm
    if k == 'c':
        return str(t[1])
    if k == 'a':
        return atom_text(t[1])
    name, args = t[1], t[2]
    if name == '.' and len(args) == 2:
        items = []
        while t[0] == 'f' and t[1] == '.' and len(t[2]) == 2:
            items.append(term_text(t[2][0]))
            t = t[2][1]
        if t == ('a', '[]'):
            return '[' + ','.join(items) + ']'
        return '[' + ','.join(items) + '|' + term_text(t) + ']'
    if name in ('=', '\\=') and len(args) == 2:
        return '%s %s %s' % (term_text(args[0]), name, term_text(args[1]))
    return atom_text(name) + '(' + ','.join(term_text(a) for a in args) + ')'


_PRI = {'and': 1000, 'it': 1050, 'ite': 1100, 'or': 1100}


def goal_text(g, maxp=1200):
    """minimally parenthesised text, relying on  ,  <  ->  <  ;  (all right-associative)"""
    k = g[0]
    if k == 'call':
        return term_text(g[1])
    if k == 'true':
        return 'true'
    if k == 'fail':
        return 'fail'
    if k == 'cut':
        return '!'
    if k == 'not':
        a = g[1]
        inner = goal_text(a, 0) if a[0] in ('call', 'true', 'fail', 'cut', 'not') else '(' + goal_text(a) + ')'
        if a[0] == 'call' and a[1][0] == 'f' and a[1][1] in ('=', '\\='):
            inner = '(' + goal_text(a) + ')'
        return '\\+ ' + inner
    if k == 'and':
        s = goal_text(g[1], 999) + ', ' + goal_text(g[2], 1000)
    elif k == 'it':
        s = goal_text(g[1], 1049) + ' -> ' + goal_text(g[2], 1050)
    elif k == 'or':
        assert g[1][0] != 'it', '(C -> T) ; E is if-then-else: use an ite node'
        s = goal_text(g[1], 1099) + ' ; ' + goal_text(g[2], 1100)
    elif k == 'ite':
        s = goal_text(g[1], 1049) + ' -> ' + goal_text(g[2], 1050) + ' ; ' + goal_text(g[3], 1100)
    else:
        raise ValueError(g)
    if _PRI[k] > maxp:
        s = '(' + s + ')'
    return s


def goal_text_full(g):
    """fully parenthesised text of the same tree"""
    k = g[0]
    if k in ('call', 'true', 'fail', 'cut'):
        return goal_text(g)
    if k == 'not':
        return '\\+ (' + goal_text_full(g[1]) + ')'
    if k == 'and':
        return '((' + goal_text_full(g[1]) + ') , (' + goal_text_full(g[2]) + '))'
    if k == 'it':
        return '((' + goal_text_full(g[1]) + ') -> (' + goal_text_full(g[2]) + '))'
    if k == 'or':
        return '((' + goal_text_full(g[1]) + ') ; (' + goal_text_full(g[2]) + '))'
    if k == 'ite':
        return '((' + goal_text_full(g[1]) + ') -> (' + goal_text_full(g[2]) + ') ; (' + goal_text_full(g[3]) + '))'
    raise ValueError(g)


def clause_text(clause, full=False):
    head, body = clause
    h = term_text(head)
    if body == ('true',):
        return h + '.'
    return h + ' :- ' + (goal_text_full(body) if full else goal_text(body)) + '.'


def program_text(clauses, full=False):
    return '\n'.join(clause_text(c, full) for c in clauses) + '\n'
