"""C15 - answers are fully dereferenced and stay valid after backtracking.

Ob C15.a: a term T and a history of up to 3 unifications  V_i = term_j  over a pool of 3
variables, made in a symbolic ORDER (outer first / inner first / chains) and held open.
At the innermost point: to_python(T) equals the reference value; the raw structure
returned by get_value(T) contains no bound variable; if the answer is ground, the saved
get_value(T) still denotes the same term after all generators were closed.
Ob C15.b: the same through findall/3 (the goal is a registered predicate performing the
history): the collected instance equals the reference instance.
"""
from vlib import ch
from vlib.terms import (Decoder, runify, resolve, show, Cyclic, slot_alphabet_sizes, ref_to_python,
                        raw_has_bound_variable, walk)
from vlib.refprolog import full_resolve
from yldprolog.engine import unify, get_value, to_python, Variable, Atom, Functor

PROPERTY = 'C15'
FUNCTIONS = ['engine.Variable.get_value', 'engine.Functor.get_value', 'engine.get_value', 'engine.to_python',
             'engine.Variable.to_python', 'engine.Functor.to_python', 'engine.Atom.to_python', 'engine.Variable.unify',
             'engine.unify', 'engine.YP.findall', 'engine.YP.call', 'engine.YP.makelist']
STUBS = ['C15.b: the goal of findall is a Python predicate registered with register_function that performs the binding history']
ASSUMPTIONS = ['functor and atom names are concrete (f/1, g/2, a); improper lists are not built (to_python leaves them unspecified)']
OUTSIDE = ['terms deeper than 2', 'more than 3 variables or 3 bindings', 'cyclic-term cases']
BOUNDS = {'quick': 'T of depth <=2 (top f/g, children v0 v1 v2 int a f(..)), history of <=3 bindings V_i = leaf-or-flat-compound in symbolic order',
          'thorough': 'same with all top symbols and depth-2 binding terms'}
EXPLANATION = ('CrossHair executes get_value/to_python on terms whose variables were bound by real unify generators in a symbolic order; '
               'on every path the value, the absence of live variables in the returned structure, and its validity after backtracking '
               'are compared with a reference dereferencing; CONFIRMED = path tree exhausted')
NV = 3
BIND = [['v0', 'v1', 'v2', 'int', 'F1'], ['v0', 'v1', 'v2', 'int']]
NAMES = ['a', 'b', 'f', 'g']
# the answer term T: concrete templates over the variable pool
TEMPLATES = {
    'v0': ('v', 0),
    'f(v0)': ('f', 'f', (('v', 0),)),
    'g(v0,v1)': ('f', 'g', (('v', 0), ('v', 1))),
    'g(v1,f(v0))': ('f', 'g', (('v', 1), ('f', 'f', (('v', 0),)))),
    '[v0,v1]': ('f', '.', (('v', 0), ('f', '.', (('v', 1), ('a', '[]'))))),
}
# lists whose tail is a variable: bound through alias chains to a list later (difference-list style)
LIST_TEMPLATES = {
    '[a|v0]': ('f', '.', (('a', 'a'), ('v', 0))),
    '[a,b|v0]': ('f', '.', (('a', 'a'), ('f', '.', (('a', 'b'), ('v', 0))))),
}
BIND_LIST = [['v1', 'v2', 'nil', 'LP', 'int'], ['v1', 'v2', 'int', 'nil']]


def realise(t, vs):
    if t[0] == 'v':
        return vs[t[1]]
    if t[0] == 'a':
        return Atom(t[1])
    if t[0] == 'c':
        return t[1]
    return Functor(t[1], [realise(a, vs) for a in t[2]])


BIND_DEEP = [['F1', 'F2'], ['F1', 'v1', 'int'], ['v1', 'v2', 'int']]     # first binding: a structure with variables at depth 2


def spec_for(nb, deep=False, lists=False):
    spec = []
    k = 0
    for levels in ([BIND_LIST] * nb if lists else ([BIND_DEEP] if deep else [BIND]) + [BIND] * (nb - 1)):
        for size in slot_alphabet_sizes(levels):
            spec.append(('k%d' % k, 'int', '0 <= k%d <= %d' % (k, size - 1)))
            k += 1
    nc = k
    for i in range(nc):
        spec.append(('i%d' % i, 'int', None))
    for j in range(nb):
        spec.append(('w%d' % j, 'int', '0 <= w%d <= %d' % (j, NV - 1)))     # which variable gets bound
    spec.append(('nb', 'int', '0 <= nb <= %d' % nb))
    return spec, nc


def make_body(template, nb, through_findall, info, deep=False):
    lists = template in LIST_TEMPLATES
    spec, nc = spec_for(nb, deep, lists)
    rT = dict(TEMPLATES, **LIST_TEMPLATES)[template]
    ix = ch.index_of(spec)

    def body(vals):
        ch.install_registry(False)
        vs = [Variable() for _ in range(NV)]
        dec = Decoder(vs, NAMES, vals[:nc], vals[nc:2 * nc])
        T = realise(rT, vs)
        binds = []
        for j in range(nb):
            t, r = dec.term(BIND_LIST if lists else (BIND_DEEP if (deep and j == 0) else BIND))
            w = vals[ix['w%d' % j]]
            which = 0
            for i in range(NV):
                if w == i:
                    which = i
            binds.append((which, t, r))
        count = vals[ix['nb']]
        s = {}
        used = 0
        try:
            for j in range(nb):
                if j < count:
                    s = runify(('v', binds[j][0]), binds[j][2], s)
                    used += 1
                    if s is None:
                        return ch.HOLDS_TRIVIAL
        except Cyclic:
            return ch.HOLDS_TRIVIAL
        try:
            exp_py = ref_to_python(rT, s)
            py_ok = True
        except TypeError:
            exp_py, py_ok = None, False        # improper list: to_python is unspecified; get_value is still checked
        exp_term = resolve(rT, s, {})
        ground = not _has_var(full_resolve(rT, s))
        if through_findall:
            yp = ch.new_engine()

            def history():
                its = []
                ok = True
                for j in range(used):
                    it = iter(unify(vs[binds[j][0]], binds[j][1]))
                    try:
                        next(it)
                    except StopIteration:
                        ok = False
                        break
                    its.append(it)
                if ok:
                    yield False
                for it in reversed(its):
                    it.close()
            yp.register_function('history', history)
            bag = yp.variable()
            n = 0
            try:
                for _ in yp.findall(T, yp.atom('history'), bag):
                    n += 1
                    got = to_python(bag)
                    raw = get_value(bag)
            except Exception as e:
                ch.note(info, 'findall raised %s: %s', type(e).__name__, str(e)[:150])
                return ch.VIOLATED
            if n != 1:
                ch.note(info, 'findall succeeded %d times', n)
                return ch.VIOLATED
            if got != [exp_py]:
                ch.note(info, 'findall collected %r, reference [%r]', got, exp_py)
                return ch.VIOLATED
            if ground and raw_has_bound_variable(raw):
                ch.note(info, 'findall result contains a live variable')
                return ch.VIOLATED
            for v in vs + [bag]:
                if v._is_bound:
                    ch.note(info, 'variable still bound after findall')
                    return ch.VIOLATED
            return ch.HOLDS_NONTRIVIAL if used >= 2 else ch.HOLDS_TRIVIAL
        opened = []
        for j in range(used):
            it = iter(unify(vs[binds[j][0]], binds[j][1]))
            try:
                next(it)
            except StopIteration:
                ch.note(info, 'binding %d failed although the reference succeeds', j)
                return ch.VIOLATED
            opened.append(it)
        try:
            got_py = to_python(T) if py_ok else None
            saved = get_value(T)
        except Exception as e:
            ch.note(info, 'to_python/get_value raised %s: %s', type(e).__name__, str(e)[:150])
            return ch.VIOLATED
        if got_py != exp_py:
            ch.note(info, 'to_python gives %r, reference %r', got_py, exp_py)
            return ch.VIOLATED
        if raw_has_bound_variable(saved):
            ch.note(info, 'get_value returned a structure that still contains a bound variable')
            return ch.VIOLATED
        if show(saved, {}) != exp_term:
            ch.note(info, 'get_value gives %r, reference %r', show(saved, {}), exp_term)
            return ch.VIOLATED
        # backtrack one binding at a time: after each step the term must read as under the remaining bindings
        # (a dereferencing shortcut that is not undone on backtracking shows up here)
        k = len(opened)
        while k > 0:
            opened[k - 1].close()
            k -= 1
            sk = {}
            try:
                for j in range(k):
                    sk = runify(('v', binds[j][0]), binds[j][2], sk)
            except Cyclic:
                break
            try:
                now_ok = True
                try:
                    now_exp_py = ref_to_python(rT, sk)
                except TypeError:
                    now_ok, now_exp_py = False, None
                now_py = to_python(T) if now_ok else None
                now = show(get_value(T), {})
            except Exception as e:
                ch.note(info, 'to_python/get_value raised %s after backtracking', type(e).__name__)
                return ch.VIOLATED
            if now_py != now_exp_py or now != resolve(rT, sk, {}):
                ch.note(info, 'after undoing binding %d the term reads %r, reference %r', k, now, resolve(rT, sk, {}))
                return ch.VIOLATED
        if ground:
            after = show(saved, {})
            if after != exp_term:
                ch.note(info, 'saved answer changed after backtracking: %r, was %r', after, exp_term)
                return ch.VIOLATED
            if py_ok and to_python(saved) != exp_py:
                ch.note(info, 'to_python of the saved answer changed after backtracking')
                return ch.VIOLATED
        return ch.HOLDS_NONTRIVIAL if (used >= 2 and ground) else ch.HOLDS_TRIVIAL
    return spec, body


def _has_var(t):
    if t[0] == 'v':
        return True
    if t[0] == 'f':
        for a in t[2]:
            if _has_var(a):
                return True
    return False


def units(tier, seed):
    us = []

    def add(uid, template, nb, findall, fixed, timeout, ob, deep=False):
        us.append(dict(id=uid, template=template, nb=nb, findall=findall, fixed=fixed, ob=ob, timeout=timeout, weight=timeout / 4, deep=deep,
                       bounds='T = %s; <=%d bindings  V_w = {v0 v1 v2 int f(v0|v1|v2|int)}  in symbolic order; fixed %r' % (template, nb, fixed)))
    names = list(TEMPLATES)
    if tier == 'quick':
        for t in names:
            add('a.T=%s.nb2' % t, t, 2, False, {}, 300, 'C15.a')
        # three bindings, the first one fixed to the outer-first shape  v0 = f(v1)
        for t in ('v0', 'g(v0,v1)'):
            add('a.T=%s.nb3.v0=f(v1)' % t, t, 3, False, {'w0': 0, 'k0': 4, 'k1': 1, 'nb': 3}, 300, 'C15.a')
        for t in ('f(v0)', 'g(v0,v1)'):
            add('b.findall.T=%s.nb2' % t, t, 2, True, {}, 300, 'C15.b')
        # outer binding first, to a structure whose variables sit at depth 2; the inner variable is bound afterwards
        add('a.T=v0.nb2.deep', 'v0', 2, False, {'w0': 0, 'nb': 2}, 300, 'C15.a', deep=True)
        add('a.T=g(v0,v1).nb2.deep', 'g(v0,v1)', 2, False, {'w0': 0, 'nb': 2}, 300, 'C15.a', deep=True)
        add('b.findall.T=f(v0).nb2.deep', 'f(v0)', 2, True, {'w0': 0, 'nb': 2}, 300, 'C15.b', deep=True)
        for t in LIST_TEMPLATES:
            # the tail is first aliased to another variable (k0 = 0: v0 = v1), then two more bindings in symbolic order
            for w1 in range(NV):
                add('a.T=%s.nb3.lists.w1=%d' % (t, w1), t, 3, False, {'w0': 0, 'k0': 0, 'nb': 3, 'w1': w1}, 300, 'C15.a')
    else:
        for t in names:
            add('a.T=%s.nb3.deep' % t, t, 3, False, {'w0': 0}, 1500, 'C15.a', deep=True)
        for t in names:
            if t in ('v0', 'g(v0,v1)', 'g(v1,f(v0))'):
                for w0 in range(NV):
                    for k0 in range(len(BIND[0])):
                        add('a.T=%s.nb3.w0=%d.k0=%d' % (t, w0, k0), t, 3, False, {'w0': w0, 'k0': k0, 'nb': 3}, 900, 'C15.a')
            else:
                add('a.T=%s.nb2' % t, t, 2, False, {}, 900, 'C15.a')
            add('b.findall.T=%s.nb2' % t, t, 2, True, {}, 900, 'C15.b')
        for w0 in range(NV):
            for k0 in range(len(BIND[0])):
                add('b.findall.T=f(v0).nb3.w0=%d.k0=%d' % (w0, k0), 'f(v0)', 3, True, {'w0': w0, 'k0': k0, 'nb': 3}, 900, 'C15.b')
        for t in LIST_TEMPLATES:
            add('a.T=%s.nb3.lists' % t, t, 3, False, {'w0': 0, 'nb': 3}, 900, 'C15.a')
    return us


def build(u):
    info = {}
    spec, body = make_body(u['template'], u['nb'], u['findall'], info, u.get('deep', False))
    return ch.harness_from_spec(u['id'], spec, u['fixed'], body, info=info)
