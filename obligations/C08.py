"""C08 - call resolution: facts first, exact arity, load order, late binding.

Ob C08.a: a symbolic history of 2 (thorough 3) operations on one engine, each one of
  load script i of a pool (two define p/1 - one with a cut -, one defines p/2, one calls
  q/1 which another defines, one raises while loading) with symbolic `overwrite`;
  register_function for p with arity inferred / 0 / 1 / 2 / variadic; assert a p/1 fact;
  clear.
After every step a battery of queries (p/0 p/1 p/2 q/1 r/1 and an unknown predicate) is
compared with a list-of-definitions model (facts first, then the definitions registered
for exactly that arity in load order - each with its own cut -, variadic only if none,
append vs replace, failing load = no change).
Ob C08.b (direct SMT): the key expressions are read from engine.py's AST; z3 + cvc5 decide
that (i) two different name/arity pairs never share a key, (ii) a fixed-arity key never
equals a variadic key of another name, (iii) no non-reserved name's key is an engine API
entry of the live eval_context.
"""
from vlib import ch, keysmt
from vlib.control import _compile
from yldprolog.engine import YP, unify, to_python

PROPERTY = 'C08'
FUNCTIONS = ['engine.YP.query', 'engine.YP.register_function', 'engine.YP.load_script_from_string', 'engine.chain_functions',
             'engine.YP.clear', 'engine.YP._set_builtin_predicates', 'engine.YP._set_default_eval_context',
             'engine.YP.match_dynamic', 'engine.YP.assert_fact', 'engine.YP.__init__',
             'key expressions f"{name}_{len(args)}" / f"{name}_n" (translated to SMT-LIB from the AST)']
STUBS = ['script pool compiled natively with the current compiler; the failing script is compiled code followed by a statement that raises NameError']
ASSUMPTIONS = ['SMT: an arity is rendered in canonical decimal (regex 0|[1-9][0-9]*), rendering is injective',
               'z3 queries carry a length bound of 12 on names; the cvc5 binary answers them unbounded']
OUTSIDE = ['histories longer than stated', 'scripts outside the pool']
BOUNDS = {'quick': 'all histories of 2 operations and histories of 3 operations after 12 selected prefixes (9 operation kinds, symbolic overwrite flags, 5 registration arities, symbolic fact value); SMT queries unbounded (cvc5) / len<=12 (z3)',
          'thorough': 'all histories of 3 operations; histories of 4 operations after 6 selected prefixes with the third operation fixed'}
EXPLANATION = ('CrossHair executes load/register/assert/clear histories with symbolic choices on the real engine and compares a battery of '
               'queries after every step with a list-of-definitions model; the key-collision questions are decided by SMT solvers over '
               'string terms translated from engine.py\'s own f-strings')

SCRIPTS = [
    "p(1).\np(2) :- !.\np(3).\n",
    "p(10).\np(11).\np(s) :- p(40).\n",        # the recursive call must resolve p/1 at call time (facts, other definitions)
    "p(20, 21).\n",
    "r(X) :- q(X).\n",
    "q(30).\nq(31).\n",
]
# model of each script: {(name, arity): answers of that definition (cut already applied)}
SCRIPT_DEFS = [
    {('p', 1): [(1,), (2,)]},
    {('p', 1): 'def1-recursive'},
    {('p', 2): [(20, 21)]},
    {('r', 1): 'calls-q'},
    {('q', 1): [(30,), (31,)]},
]
BATTERY = [('p', 0), ('p', 1), ('p', 2), ('q', 1), ('r', 1), ('nosuch', 1)]
OPS = ['load0', 'load1', 'load2', 'load3', 'load4', 'loadfail', 'register', 'assert', 'clear']


def py_def(kind):
    """the Python predicate registered for p and its model: kind 0 inferred(1 arg) 1 arity0 2 arity1 3 arity2 4 variadic 5-7 *args function with explicit arity 0/1/2"""
    def p1(a):
        for _ in unify(a, 40):
            yield False

    def p0():
        yield False

    def p2(a, b):
        for _ in unify(a, 41):
            for _ in unify(b, 42):
                yield True

    def pv(*args):
        yield False
    return [(p1, None, ('p', 1), [(40,)]), (p0, 0, ('p', 0), [()]), (p1, 1, ('p', 1), [(40,)]),
            (p2, 2, ('p', 2), [(41, 42)]), (pv, -1, ('p', 'n'), 'succeed-once'),
            # explicit arity that the signature does not reveal
            (pv, 0, ('p', 0), 'succeed-once'), (pv, 1, ('p', 1), 'succeed-once'), (pv, 2, ('p', 2), 'succeed-once')][kind]


def battery(yp, meta=True, full=True):
    out = []
    for name, arity in BATTERY:
        vs = [yp.variable() for _ in range(arity)]
        rows = []
        for _ in yp.query(name, vs):
            rows.append(tuple([to_python(v) for v in vs]))
            if len(rows) > 12:
                break
        out.append(rows)
    # the same goals through the meta-call builtins must resolve identically (late binding): call/2 after every step, findall/3 after the last
    for name, arity in ((('p', 1), ('r', 1)) if meta else ()):
        v = yp.variable()
        rows = []
        for _ in yp.query('call', [yp.atom(name), v]):
            rows.append((to_python(v),))
            if len(rows) > 12:
                break
        if rows != out[BATTERY.index((name, arity))]:
            out.append(('call/2 on %s differs' % name, rows))
        if not full:
            continue
        L = yp.variable()
        n = 0
        for _ in yp.query('findall', [v, yp.functor(name, [v]), L]):
            n += 1
            if to_python(L) != [r[0] for r in rows]:
                out.append(('findall on %s differs' % name, to_python(L)))
        if n != 1:
            out.append(('findall on %s succeeded %d times' % (name, n),))
    return out


def model_battery(facts, defs):
    def answers(key):
        name, arity = key
        rows = list(facts.get(key, []))
        chain = defs.get(key)
        if chain is None:
            chain = defs.get((name, 'n'))
        for d in (chain or []):
            if d == 'def1-recursive':
                rows += [(10,), (11,)]
                # p(s) :- p(40).   p(40) is looked up when the clause runs: dynamic facts and every definition of p/1
                # ... once per solution of p(40)
                n40 = 0
                for r in facts.get(key, []):
                    if r == (40,):
                        n40 += 1
                for d2 in (chain or []):
                    if d2 == 'succeed-once':
                        n40 += 1
                    elif d2 not in ('def1-recursive', 'calls-q'):
                        for r in d2:
                            if r == (40,):
                                n40 += 1
                rows += [('s',)] * n40
                continue
            if d == 'calls-q':
                rows += answers(('q', 1))
            elif d == 'succeed-once':
                rows.append(tuple([None] * arity))
            else:
                rows += d
        return rows
    return [answers(k) for k in BATTERY]


def make_body(steps, info):
    codes = [_compile(s) for s in SCRIPTS]
    failing = codes[1] + "\nthis_name_is_not_defined_anywhere\n"
    spec = []
    for s in range(steps):
        spec += [('op%d' % s, 'int', '0 <= op%d <= %d' % (s, len(OPS) - 1)), ('ow%d' % s, 'bool', None),
                 ('kind%d' % s, 'int', '0 <= kind%d <= 7' % s), ('v%d' % s, 'int', None)]
    ix = ch.index_of(spec)

    def body(vals):
        ch.install_registry(False)
        g = lambda k: vals[ix[k]]
        yp = ch.new_engine()        # construction involves no symbolic value; every later operation is traced
        facts, defs = {}, {}
        changed = False
        for s in range(steps):
            op = g('op%d' % s)
            opname = OPS[0]
            for j in range(len(OPS)):
                if op == j:
                    opname = OPS[j]
            try:
                if opname.startswith('load') and opname != 'loadfail':
                    i = int(opname[4:])
                    ow = g('ow%d' % s)
                    yp.load_script_from_string(codes[i], overwrite=ow)
                    for key, d in SCRIPT_DEFS[i].items():
                        if ow or key not in defs:
                            defs[key] = [d]
                        else:
                            defs[key] = defs[key] + [d]
                    changed = True
                elif opname == 'loadfail':
                    try:
                        yp.load_script_from_string(failing, overwrite=g('ow%d' % s))
                        ch.note(info, 'the failing script loaded without an exception')
                        return ch.VIOLATED
                    except NameError:
                        pass
                elif opname == 'register':
                    kind = g('kind%d' % s)
                    fn, arity, key, d = py_def(0)
                    for j in range(8):
                        if kind == j:
                            fn, arity, key, d = py_def(j)
                    yp.register_function('p', fn, arity)
                    defs[key] = [d]
                    changed = True
                elif opname == 'assert':
                    yp.assert_fact(yp.atom('p'), [g('v%d' % s)])
                    facts[('p', 1)] = facts.get(('p', 1), []) + [(g('v%d' % s),)]
                    changed = True
                else:
                    yp.clear()
                    facts, defs = {}, {}
                got = battery(yp, meta=True, full=(s == steps - 1))
            except Exception as e:
                ch.note(info, 'step %d (%s) raised %s: %s', s, opname, type(e).__name__, str(e)[:150])
                return ch.VIOLATED
            exp = model_battery(facts, defs)
            if got != exp:
                ch.note(info, 'after step %d (%s): battery %r, model %r', s, opname, got, exp)
                return ch.VIOLATED
        return ch.HOLDS_NONTRIVIAL if changed else ch.HOLDS_TRIVIAL
    return spec, body


class KeyQueries(ch.DirectUnit):
    def __init__(self):
        self.info = {}

    def queries(self):
        tpls = keysmt.key_templates()
        fixed = {fn: [p for f, p in tpls if f == fn and ('arity',) in p] for fn in ('query', 'register_function')}
        var = {fn: [p for f, p in tpls if f == fn and ('arity',) not in p] for fn in ('query', 'register_function')}
        for fn in fixed:
            if len(fixed[fn]) != 1 or len(var[fn]) != 1:
                raise ValueError('unexpected key expressions in %s: %r' % (fn, tpls))
        if fixed['query'] != fixed['register_function'] or var['query'] != var['register_function']:
            raise ValueError('query() and register_function() build different keys: %r' % (tpls,))
        kf, kv = fixed['query'][0], var['query'][0]
        decl = ''.join('(declare-const %s String)\n' % v for v in ('n1', 'n2', 'd1', 'd2'))
        dig = '(assert (str.in_re d1 %s))\n(assert (str.in_re d2 %s))\n' % (keysmt.DIGITS, keysmt.DIGITS)
        qs = []
        qs.append(('i. two different name/arity pairs with the same fixed-arity key',
                   decl + dig + '(assert (= %s %s))\n(assert (or (not (= n1 n2)) (not (= d1 d2))))'
                   % (keysmt.term(kf, 'n1', 'd1'), keysmt.term(kf, 'n2', 'd2')), ('n1', 'n2', 'd1', 'd2')))
        qs.append(('ii-a. a fixed-arity key equal to a variadic key',
                   decl + dig + '(assert (= %s %s))' % (keysmt.term(kf, 'n1', 'd1'), keysmt.term(kv, 'n2', 'd2')),
                   ('n1', 'n2', 'd1')))
        qs.append(('ii-b. two different names with the same variadic key',
                   decl + '(assert (= %s %s))\n(assert (not (= n1 n2)))' % (keysmt.term(kv, 'n1', 'd1'), keysmt.term(kv, 'n2', 'd2')),
                   ('n1', 'n2')))
        yp = YP()
        fresh = YP()
        fresh.eval_context = {}
        fresh._set_default_eval_context()
        api = sorted(fresh.eval_context.keys())
        black = list(yp.eval_blacklist)
        notblack = ''.join('(assert (not (= n1 %s)))\n' % keysmt.smt_str(b) for b in black)
        for k in api:
            qs.append(('iii. a callable name whose key is the API entry %r' % k,
                       decl + dig + notblack + '(assert (or (= %s %s) (= %s %s)))'
                       % (keysmt.term(kf, 'n1', 'd1'), keysmt.smt_str(k), keysmt.term(kv, 'n1', 'd1'), keysmt.smt_str(k)),
                       ('n1', 'd1')))
        return qs, (kf, kv)

    def run(self):
        qs, (kf, kv) = self.queries()
        results = []
        verdict = 'discharged'
        detail = ''
        solver_s = 0.0
        for label, smt, bvars in qs:
            r = keysmt.decide(smt, bvars)
            solver_s += r['z3_s'] + r['cvc5_s']
            results.append(dict(query=label, z3=r['z3'], cvc5=r['cvc5'], verdict=r['verdict'], z3_s=r['z3_s'], cvc5_s=r['cvc5_s'],
                                model=r['model']))
            if r['verdict'] in ('sat', 'sat-cvc5'):
                ok, why = self.replay_model(label, r['model'])
                if ok:
                    return dict(verdict='violated', counterexample=dict(query=label, model=r['model']), message=why,
                                replay=dict(native_result=2, info={'reason': why}), queries=results, solver_s=round(solver_s, 3))
                return dict(verdict='harness_error', detail='SMT model does not replay: %s %r' % (label, r['model']), queries=results)
            if r['verdict'] not in ('unsat', 'unsat-bounded'):
                verdict = 'inconclusive'
                detail += '%s: z3=%s cvc5=%s; ' % (label, r['z3'], r['cvc5'])
        out = dict(verdict=verdict, state='SMT', queries=results, solver_s=round(solver_s, 3), solver_queries=2 * len(qs),
                   nontrivial=len(qs), paths=0, detail=detail,
                   sample=dict(key_templates=[kf, kv], first_query=qs[0][1]))
        return out

    def replay_model(self, label, model):
        """a sat model must show up on the real engine: register a marker under (n2, d2) / look up n1"""
        try:
            yp = YP()
            n1, d1 = model.get('n1', ''), model.get('d1', '0')
            hit = []
            if label.startswith('iii'):
                args = [yp.variable() for _ in range(int(d1) if d1.isdigit() else 0)]
                before = dict(yp.eval_context)
                fn = yp.eval_context.get('%s_%s' % (n1, d1), yp.eval_context.get('%s_n' % n1))
                return (fn is not None and n1 not in yp.eval_blacklist), 'query(%r/%s) resolves to an engine API entry' % (n1, d1)
            n2, d2 = model.get('n2', ''), model.get('d2', '0')

            def marker(*a):
                hit.append(1)
                yield False
            yp.register_function(n2, marker, int(d2) if d2.isdigit() and 'variadic' not in label else -1)
            for _ in yp.query(n1, [yp.variable() for _ in range(int(d1) if d1.isdigit() else 0)]):
                pass
            return bool(hit) and (n1, d1) != (n2, d2), 'calling %r/%s ran the definition registered for %r/%s' % (n1, d1, n2, d2)
        except Exception as e:
            return False, 'replay raised %s' % e

    def run_native(self, args):
        qs, _ = self.queries()
        for label, smt, bvars in qs:
            if label == args.get('query'):
                ok, why = self.replay_model(label, args.get('model') or {})
                self.info['reason'] = why
                return 2 if ok else 0
        return 0


def units(tier, seed):
    us = []
    steps = 3
    depth = 2
    quick_prefixes = [('load0', 'load1'), ('load1', 'load0'), ('register', 'load1'), ('load1', 'register'), ('load1', 'assert'), ('assert', 'load1'),
                      ('loadfail', 'load1'), ('load3', 'load4'), ('load4', 'load3'), ('clear', 'load1'), ('load1', 'clear'), ('register', 'register')]
    import itertools
    reg = OPS.index('register')
    combos = []
    for combo in itertools.product(range(len(OPS)), repeat=depth):
        fx = {'op%d' % i: c for i, c in enumerate(combo)}
        if combo[0] == reg and combo[1] == reg:
            for k0 in range(8):
                combos.append((combo, dict(fx, kind0=k0), '.kind%d' % k0))
        else:
            combos.append((combo, fx, ''))
    if tier == 'quick':
        # all histories of 2 operations (partitioned on the first), and 3 operations after selected prefixes
        for op in range(len(OPS)):
            us.append(dict(id='a.2step.' + OPS[op], kind='a', steps=2, fixed={'op0': op}, ob='C08.a', timeout=300, weight=60,
                           bounds='history of 2 operations starting with %s' % OPS[op]))
        combos = [c for c in combos if (OPS[c[0][0]], OPS[c[0][1]]) in quick_prefixes]
    if tier != 'quick':
        # thorough: every history of 3 operations (above) and histories of 4 operations after the selected prefixes
        for combo, fx, tag in [c for c in combos if (OPS[c[0][0]], OPS[c[0][1]]) in quick_prefixes[:6]]:
            us.append(dict(id='a.4step.' + '-'.join(OPS[c] for c in combo) + tag, kind='a', steps=4, fixed=dict(fx, op2=OPS.index('load1')), ob='C08.a', timeout=900, weight=600,
                           bounds='history of 4 operations starting with %s' % [OPS[c] for c in combo]))
    for combo, fx, tag in combos:
        us.append(dict(id='a.' + '-'.join(OPS[c] for c in combo) + tag, kind='a', steps=steps, fixed=fx, ob='C08.a',
                       timeout=300 if tier == 'quick' else 600, weight=60,
                       bounds='history of %d operations starting with %s' % (steps, [OPS[c] for c in combo])))
    us.append(dict(id='b.keys-smt', kind='b', fixed={}, ob='C08.b', timeout=300, weight=60,
                   bounds='SMT: key collisions (z3 len<=12, cvc5 unbounded)'))
    return us


def build(u):
    if u['kind'] == 'b':
        return KeyQueries()
    info = {}
    spec, body = make_body(u['steps'], info)
    return ch.harness_from_spec(u['id'], spec, u['fixed'], body, info=info)
