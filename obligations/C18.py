"""C18 - compilation is a deterministic function of the source text.

Ob C18.a (CrossHair, environment stubs): the compiler back end (YPPrologCompiler.compile_program
  ... YPPythonCodeGenerator.generate) runs on the ASTs of a clause pool while the names `set`
  and `frozenset` in the compiler modules are bound to NondetSet - a set whose iteration order
  is an arbitrary permutation chosen by symbolic ints - and `hash` / `id` return symbolic ints.
  Property: the output equals the output under the identity permutation, on every path.
Ob C18.b (history): for a symbolic choice of programs Q and P of the pool, compiling P after Q
  in the same process gives the same text as compiling P alone, and the module-level containers
  of the compiler modules are unchanged afterwards.
Ob C18.c (native validation, also the end-to-end replay of C18.a): the pool is compiled in
  subprocesses started with different PYTHONHASHSEED values; all outputs are byte-identical.
  (This also covers set displays/comprehensions, which the name-level stub of C18.a cannot see.)
"""
import json
import os
import subprocess
import sys

from crosshair.tracers import NoTracing

from vlib import ch
from vlib.control import Ctx
import yldprolog.compiler as compiler
import yldprolog.yp_generator as gen
import yldprolog.yp_prolog_visitor as vis

PROPERTY = 'C18'
FUNCTIONS = ['yp_generator.YPPrologCompiler.compile_program', 'compile_function_body', 'filter_free_variables', 'get_free_variables',
             'compile_free_variable_declarations', 'compile_body', 'yp_generator.YPPythonCodeGenerator.generate (all generate_*)',
             'compiler.compile_prolog_from_string (C18.b, C18.c)']
STUBS = ['NondetSet bound to the names set/frozenset in yp_generator, yp_prolog_visitor and compiler: iteration order is a permutation chosen by symbolic ints',
         'hash() and id() in those modules return fresh symbolic ints',
         'ASTs are produced natively by the real front end + visitor from a concrete clause pool']
ASSUMPTIONS = ['dict iteration order is insertion order (language guarantee)', 'ANTLR prediction caches do not influence the parse tree (validated by C18.b/c)']
OUTSIDE = ['set displays/comprehensions are invisible to the name-level stub (covered only by the native hash-seed run C18.c)', 'other processes\' environment']
BOUNDS = {'quick': 'pool of 8 programs with 2..5 fresh variables per clause; <=6 permutation choices of range 0..4; 6 hash seeds',
          'thorough': '16 hash seeds, 8 permutation choices'}
EXPLANATION = ('CrossHair executes the compiler back end with every set iteration order and every hash/id value symbolic and compares the output with '
               'the identity order on every path; process-level nondeterminism is replayed natively under different PYTHONHASHSEED values')

POOL = [
    "p(X) :- q(X, Y), r(Y, Z), s(Z, W), t(W, V).\n",
    "p(X, Y) :- A = f(B, C), D = g(C, E), q(A, D, E, B).\n",
    "t(L) :- findall(f(X,Y), m(X, Z, Y, W), L), n(Z, W).\n",
    "a(X) :- (b(X, Y) -> c(Y, Z), d(Z) ; e(X, W), f(W, V), g(V)).\n",
    "h([H|T], R) :- k(H, A), h(T, B), app(A, B, R).\nh([], []).\n",
    "n(X) :- \\+ m(X, Y, Z), o(Y), o(Z).\n",
    "z :- u(A, B, C, D, E).\n",
    "w(X, X, Y) :- Y = [A, B, C|D], v(A), v(B), v(C), v(D).\n",
    "m(X) :- X = [A, B, C], v(A), v(B), k([D, E]), v(C), v(E), v(D).\n",
    "c1(X) :- (a(X) -> b(X) ; c(X)).\nc2(X) :- \\+ a(X), (b(X) -> true ; c(X)).\n",
    # terms whose PRINTED form coincides although they differ (quoting, _ vs x1): a cache keyed by text would confuse them
    "pl(_, P) :- q(P, f(_, 'a,b'), nm('Name')).\n",
    "pl(x1, P) :- q(P, f(x1, a, b), nm(Name)).\n",
    # refused by the code generator (clause too large) after an if-then-else: state that leaks from an aborted compilation shows up next
    "c3(X) :- (a(X) -> b(X) ; c(X)).\nbig :- " + ", ".join(["q"] * 21) + ".\n",
]


class Choices:
    def __init__(self, values):
        self.values = values
        self.pos = 0

    def pick(self, n):
        """an index in range(n), decided by the next symbolic choice (0 when choices are used up)"""
        if self.pos >= len(self.values) or n <= 1:
            return 0
        v = self.values[self.pos]
        self.pos += 1
        for j in range(n - 1):
            if v == j:
                return j
        return n - 1


CURRENT = [None]


class NondetSet:
    def __init__(self, iterable=()):
        self._items = []
        for x in iterable:
            if x not in self._items:
                self._items.append(x)

    def __iter__(self):
        items = list(self._items)
        out = []
        while items:
            out.append(items.pop(CURRENT[0].pick(len(items))))
        return iter(out)

    def __contains__(self, x):
        return x in self._items

    def __len__(self):
        return len(self._items)

    def add(self, x):
        if x not in self._items:
            self._items.append(x)

    def update(self, it):
        for x in it:
            self.add(x)

    def discard(self, x):
        if x in self._items:
            self._items.remove(x)

    def union(self, *others):
        r = NondetSet(self._items)
        for o in others:
            r.update(o)
        return r

    __or__ = union

    def difference(self, *others):
        return NondetSet([x for x in self._items if not any(x in o for o in others)])

    __sub__ = difference

    def intersection(self, *others):
        return NondetSet([x for x in self._items if all(x in o for o in others)])

    __and__ = intersection

    def __eq__(self, other):
        return len(self) == len(other) and all(x in other for x in self._items)

    def __bool__(self):
        return bool(self._items)


def parse_program(src):
    import antlr4
    from yldprolog.prologLexer import prologLexer
    from yldprolog.prologParser import prologParser
    parser = prologParser(antlr4.CommonTokenStream(prologLexer(antlr4.InputStream(src))))
    return vis.YPPrologVisitor(Ctx).visit(parser.program())


def backend(program):
    code = gen.YPPrologCompiler(Ctx).compile_program(program)
    return gen.YPPythonCodeGenerator(Ctx).generate(code)


def make_body_a(pi, nch, info):
    src = POOL[pi]
    spec = [('c%d' % i, 'int', '0 <= c%d <= 4' % i) for i in range(nch)] + [('h%d' % i, 'int', None) for i in range(3)]
    info['source'] = src

    def body(vals):
        with NoTracing():
            prog1 = parse_program(src)
            prog2 = parse_program(src)
        mods = (gen, vis, compiler)
        hv = Choices(list(vals[nch:]))

        def fake_hash(x):
            hv.pos += 1
            return vals[nch + (hv.pos % 3)]
        saved = [(m, {n: m.__dict__.get(n, None) for n in ('set', 'frozenset', 'hash', 'id')}) for m in mods]
        try:
            for m in mods:
                m.set = NondetSet
                m.frozenset = NondetSet
                m.hash = fake_hash
                m.id = fake_hash
            CURRENT[0] = Choices([0] * nch)
            base = backend(prog1)
            CURRENT[0] = Choices(list(vals[:nch]))
            out = backend(prog2)
            used = CURRENT[0].pos + hv.pos
        except Exception as e:
            ch.note(info, 'compiler raised %s: %s', type(e).__name__, str(e)[:150])
            return ch.VIOLATED
        finally:
            for m, d in saved:
                for n, v in d.items():
                    if v is None:
                        m.__dict__.pop(n, None)
                    else:
                        m.__dict__[n] = v
        if out != base:
            from crosshair.tracers import is_tracing
            if not is_tracing():
                ok, why = hashseed_run([src], range(0, 24))
                info['reason'] = ('output depends on set iteration order / hash values (permutation choices %r); end-to-end under '
                                  'PYTHONHASHSEED 0..23: %s' % (list(vals[:nch]), 'outputs differ' if not ok else 'no difference observed'))
            return ch.VIOLATED
        return ch.HOLDS_NONTRIVIAL
    return spec, body


def make_body_b(info):
    spec = [('q', 'int', '0 <= q <= %d' % (len(POOL) - 1)), ('p', 'int', '0 <= p <= %d' % (len(POOL) - 1)), ('twice', 'bool', None)]

    def body(vals):
        q, p, twice = vals
        qi = pi = 0
        for j in range(len(POOL)):
            if q == j:
                qi = j
            if p == j:
                pi = j
        with NoTracing():
            snap = {(m.__name__, n): repr(v) for m in (gen, vis, compiler) for n, v in vars(m).items()
                    if isinstance(v, (dict, list, set, frozenset)) and not n.startswith('__')}
            def comp(src):
                try:
                    return compiler.compile_prolog_from_string(src, Ctx)
                except compiler.CompilerError as e:
                    return 'CompilerError: %s' % e.message
            alone = comp(POOL[pi])
            comp(POOL[qi])
            if twice:
                comp(POOL[qi] + POOL[pi])
            after = comp(POOL[pi])
            snap2 = {(m.__name__, n): repr(v) for m in (gen, vis, compiler) for n, v in vars(m).items()
                     if isinstance(v, (dict, list, set, frozenset)) and not n.startswith('__')}
        if after != alone:
            ch.note(info, 'compiling program %d after program %d gives different text than compiling it first', pi, qi)
            return ch.VIOLATED
        with NoTracing():
            # one options object reused: the output follows the options as they are at each call
            class O:
                debug_filename = True
                debug_parser = False
                debug_generator = False
                current_source_file = 'first.prolog'
                outf = None
            try:
                o1 = compiler.compile_prolog_from_string(POOL[pi], O)
                O.current_source_file = 'second.prolog'
                o2 = compiler.compile_prolog_from_string(POOL[pi], O)
                O.debug_filename = False
                o3 = compiler.compile_prolog_from_string(POOL[pi], O)
            except compiler.CompilerError:
                o1 = o2 = o3 = None
            if o1 is not None and (o2 != o1.replace('first.prolog', 'second.prolog') or 'second.prolog' not in o2 or o3 != alone):
                info['reason'] = 'compiling the same text again with a changed options object returns stale output'
                return ch.VIOLATED
        # (module-level containers may legitimately change - e.g. a memo cache - as long as the output does not: only outputs are compared)
        return ch.HOLDS_NONTRIVIAL
    return spec, body


_SUB = r'''
import sys, json, hashlib
from yldprolog.compiler import compile_prolog_from_string
class Ctx:
    debug_filename=''; debug_parser=False; debug_generator=False; current_source_file=''; outf=None
srcs = json.loads(sys.stdin.read())
print(json.dumps([hashlib.sha256(compile_prolog_from_string(s, Ctx).encode()).hexdigest() for s in srcs]))
'''


def hashseed_run(srcs, seeds):
    outs = {}
    for sd in seeds:
        env = dict(os.environ, PYTHONHASHSEED=str(sd))
        p = subprocess.run([sys.executable, '-c', _SUB], input=json.dumps(list(srcs)), capture_output=True, text=True, env=env, timeout=120)
        if p.returncode != 0:
            raise RuntimeError('hash-seed subprocess failed: ' + p.stderr[-300:])
        outs[sd] = p.stdout.strip()
    distinct = set(outs.values())
    return len(distinct) == 1, 'seeds %r -> %d distinct outputs' % (list(seeds), len(distinct))


class HashSeeds(ch.DirectUnit):
    def __init__(self, u):
        self.u = u
        self.info = {}

    def texts(self):
        import glob
        texts = list(POOL[:-1])
        for f in sorted(glob.glob('/repo/tests/data/*.prolog') + glob.glob('/repo/compiler/test/*.prolog')):
            texts.append(open(f, encoding='utf8').read())
        return texts

    def isolated_vs_sequence(self, texts):
        """every text compiled ALONE in a fresh process must give the text it gives as the n-th compilation of one process"""
        import json as _json
        env = dict(os.environ, PYTHONHASHSEED='0')
        p = subprocess.run([sys.executable, '-c', _SUB], input=_json.dumps(list(texts)), capture_output=True, text=True, env=env, timeout=300)
        if p.returncode != 0:
            raise RuntimeError('subprocess failed: ' + p.stderr[-300:])
        seq = _json.loads(p.stdout)
        for i, t in enumerate(texts):
            q = subprocess.run([sys.executable, '-c', _SUB], input=_json.dumps([t]), capture_output=True, text=True, env=env, timeout=120)
            if q.returncode != 0:
                raise RuntimeError('subprocess failed: ' + q.stderr[-300:])
            if _json.loads(q.stdout)[0] != seq[i]:
                return t
        return None

    def run(self):
        texts = self.texts()
        bad = self.isolated_vs_sequence(texts)
        if bad is not None:
            why = 'compiled alone in a fresh process the text differs from what it gives after other compilations in one process'
            return dict(verdict='violated', counterexample={'source': bad, 'seeds': 0, 'kind': 'sequence'}, message=why, state='SEQUENCE',
                        replay=dict(native_result=2, info={'reason': why}))
        ok, why = hashseed_run(texts, range(self.u['nseeds']))
        if not ok:
            # find one offending text for the replay
            bad = None
            for t in texts:
                o, _ = hashseed_run([t], range(self.u['nseeds']))
                if not o:
                    bad = t
                    break
            return dict(verdict='violated', counterexample={'source': bad, 'seeds': self.u['nseeds']}, message=why, state='HASHSEED',
                        replay=dict(native_result=2, info={'reason': 'compiled text differs between PYTHONHASHSEED values: ' + why}))
        return dict(verdict='discharged', state='VALIDATION', paths=0, nontrivial=len(texts), solver_queries=len(texts) * self.u['nseeds'],
                    validation=dict(kind='native: subprocesses under different PYTHONHASHSEED (not a solver verdict)', programs=len(texts),
                                    seeds=self.u['nseeds']), sample=dict(result=why))

    def run_native(self, args):
        if args.get('kind') == 'sequence':
            bad = self.isolated_vs_sequence(self.texts())
            self.info['reason'] = 'sequence-dependent output for %r' % (bad,)
            return 2 if bad is not None else 0
        ok, why = hashseed_run([args['source']], range(args.get('seeds', 8)))
        self.info['reason'] = why
        return 0 if ok else 2


def units(tier, seed):
    us = []
    nch = 6 if tier == 'quick' else 8
    for pi in range(len(POOL) - 1):
        us.append(dict(id='a.order.prog%d' % pi, kind='a', prog=pi, nch=nch, fixed={}, ob='C18.a', timeout=300 if tier == 'quick' else 1200, weight=60,
                       bounds='program %d of the pool; %d permutation choices in 0..4; 3 symbolic hash/id values' % (pi, nch)))
    us.append(dict(id='b.history', kind='b', fixed={}, ob='C18.b', timeout=300, weight=40, bounds='all pairs (Q, P) of the pool, with/without a third compilation'))
    us.append(dict(id='c.hashseeds', kind='c', nseeds=6 if tier == 'quick' else 16, fixed={}, ob='C18.c', timeout=600, weight=60,
                   bounds='pool + repository samples under PYTHONHASHSEED 0..%d' % ((6 if tier == 'quick' else 16) - 1)))
    return us


def build(u):
    info = {}
    if u['kind'] == 'c':
        return HashSeeds(u)
    if u['kind'] == 'a':
        spec, body = make_body_a(u['prog'], u['nch'], info)
    else:
        spec, body = make_body_b(info)
    return ch.harness_from_spec(u['id'], spec, u['fixed'], body, info=info)
