"""C03 - backtracking leaves no trace, however a query ends.

Ob C03.a (unify level): unify(t1, t2) on decoded terms under one held-open earlier
unification is started and then finalised in a symbolic way - run to exhaustion, close(),
dropped (del), or throw() of a private exception - before or after its answer; afterwards
every variable is in the binding state it had before (and the thrown exception comes
back unchanged).
Ob C03.b (query level): compiled skeletons (C01's family plus control constructs, once,
findall, \\=, and a user-supplied Python predicate u/1) over symbolic dynamic facts and
query modes.  Symbolic: abandonment point k, the way the query ends (exhaust / close /
drop / consumer throw / u raising at its j-th invocation).  Checks: the answers seen are
the prefix of the reference answers; afterwards EVERY engine Variable created during the
run (YLDPROLOG_VERIF hook registry) is unbound; the exception that escapes is the injected
object; a second run of the same query on the same engine and variables gives the full
reference answer sequence again.
"""
from vlib import ch
from vlib.sld import (V, A, C, F, L, NIL, call, conj, eq, neq, TRUE, FAIL, CUT, make_spec, compile_skeleton, setup,
                      ref_answers, real_answers)
from vlib.terms import (Decoder, runify, resolve, show, Cyclic, slot_alphabet_sizes)
from vlib.refprolog import StepLimit
from yldprolog.engine import unify, Variable

PROPERTY = 'C03'
FUNCTIONS = ['engine.Variable.unify (try/finally)', 'engine.unify_arrays (finally: close sub-unifications)', 'engine.unify',
             'engine.YP.query', 'engine.YP.match_dynamic', 'engine.YP._match_all_clauses', 'engine.Answer.match',
             'engine.YP.once', 'engine.YP.call', 'engine.YP.findall', 'engine.YP.builtin_neq',
             'generated code of the skeletons (return for cut, break/doBreak for if-then-else)']
STUBS = ['user predicate u/1: Python generator over the table 1,2 that unifies its argument and raises a private exception at a symbolic invocation',
         'Variable registry: engine._verif_variables (YLDPROLOG_VERIF hook) replaced by a strong-reference list per path']
ASSUMPTIONS = ['generators are finalised by CPython reference counting (executed, not modelled)']
OUTSIDE = ['finalisation by the cyclic garbage collector', 'skeletons outside the listed family', 'abandonment after more than 4 answers']
BOUNDS = {'quick': 'C03.a: terms depth<=1 over 3 variables (small alphabets), 4 finalisation modes x before/after the answer; '
                   'C03.b: 15 skeletons, <=2 facts per dynamic predicate, first query argument in modes 0..2 (second a fresh variable), k<=3, 5 ending modes, raise at invocation 1..3',
          'thorough': 'C03.b with <=3 facts and all 6 query modes'}
EXPLANATION = ('CrossHair executes real query/unify generators and ends them in a symbolic way at a symbolic point; on every path the '
               'binding state of every variable ever created (hook registry) is checked to be restored, answers are a prefix of the '
               'reference, the injected exception escapes unchanged, and a re-run gives the reference answers; CONFIRMED = path tree exhausted')


class Boom(Exception):
    pass


# ---------------- C03.a -------------------------------------------------------------------
SM = [['v0', 'v1', 'v2', 'int', 'A', 'F2'], ['v0', 'v1', 'int']]
HL = [['v0', 'v1'], ]
HR = [['v2', 'int', 'F2'], ['v1', 'v2', 'int']]
NAMES = ['a', 'b', 'f', 'g']


def make_body_a(info):
    levels = [HL, HR, SM, SM]
    spec = []
    k = 0
    for lv in levels:
        for size in slot_alphabet_sizes(lv):
            spec.append(('k%d' % k, 'int', '0 <= k%d <= %d' % (k, size - 1)))
            k += 1
    nc = k
    spec += [('i%d' % i, 'int', None) for i in range(nc)]
    spec += [('hist', 'bool', None), ('mode', 'int', '0 <= mode <= 3'), ('steps', 'int', '0 <= steps <= 1')]
    ix = ch.index_of(spec)

    def body(vals):
        reg = ch.install_registry(True)
        vs = [Variable() for _ in range(3)]
        dec = Decoder(vs, NAMES, vals[:nc], vals[nc:2 * nc])
        ha, rha = dec.term(HL)
        hb, rhb = dec.term(HR)
        t1, r1 = dec.term(SM)
        t2, r2 = dec.term(SM)
        s = {}
        try:
            if vals[ix['hist']]:
                s = runify(rha, rhb, s)
                if s is None:
                    return ch.HOLDS_TRIVIAL
            s2 = runify(r1, r2, s)
        except Cyclic:
            return ch.HOLDS_TRIVIAL
        held = None
        if vals[ix['hist']]:
            held = iter(unify(ha, hb))
            try:
                next(held)
            except StopIteration:
                ch.note(info, 'history unification failed')
                return ch.VIOLATED
        names = {}
        before = [show(v, names) for v in vs]
        it = iter(unify(t1, t2))
        mode, steps = vals[ix['mode']], vals[ix['steps']]
        answered = False
        try:
            if steps == 1 or mode == 0:
                try:
                    next(it)
                    answered = True
                except StopIteration:
                    pass
            if mode == 0:
                if answered:
                    for _ in it:
                        ch.note(info, 'unify yielded twice')
                        return ch.VIOLATED
            elif mode == 1:
                it.close()
            elif mode == 2:
                del it
            else:
                boom = Boom()
                if hasattr(it, 'throw'):
                    try:
                        it.throw(boom)
                        ch.note(info, 'throw() was swallowed')
                        return ch.VIOLATED
                    except Boom as e:
                        if e is not boom:
                            ch.note(info, 'a different exception came back')
                            return ch.VIOLATED
                    except StopIteration:
                        ch.note(info, 'throw() was turned into StopIteration')
                        return ch.VIOLATED
                else:
                    it.close()      # YPSuccess / YPFail iterators hold no binding and have no throw()
        except Exception as e:
            ch.note(info, 'raised %s: %s', type(e).__name__, str(e)[:150])
            return ch.VIOLATED
        if answered != (s2 is not None) and (steps == 1 or mode == 0):
            ch.note(info, 'unify answered=%r, reference unifiable=%r', answered, s2 is not None)
            return ch.VIOLATED
        names = {}
        if [show(v, names) for v in vs] != before:
            ch.note(info, 'binding state after finalisation mode %d differs from the state before', mode)
            return ch.VIOLATED
        if held is not None:
            held.close()
        for v in reg.items:
            if v._is_bound:
                ch.note(info, 'a variable is still bound at the end')
                return ch.VIOLATED
        return ch.HOLDS_NONTRIVIAL if (answered and s2 is not None and len(s2) > len(s)) else ch.HOLDS_TRIVIAL
    return spec, body


# ---------------- C03.b -------------------------------------------------------------------
X, Y, Z, T, H, R, Lq, G = [V(n) for n in ('X', 'Y', 'Z', 'T', 'H', 'R', 'L', 'G')]
_ = lambda k: V('_anon%d' % k)


def skeletons(nf):
    S = []

    def sk(name, clauses, query, facts, **kw):
        S.append(dict(name=name, clauses=clauses, query=query, facts=facts, **kw))
    d1, d2 = {('d1', 1): nf}, {('d2', 2): nf}
    d12 = {('d1', 1): nf, ('d2', 2): nf}
    sk('join', [(F('r', X, Y), conj(call('d2', X, Z), call('d2', Z, Y)))], ('r', ['any', 'any']), d2)
    sk('rephead', [(F('r', X, X), call('d1', X)), (F('r', X, Y), call('d2', X, Y))], ('r', ['any', 'any']), {('d1', 1): nf, ('d2', 2): 1})
    sk('nestedrep', [(F('r', X, F('f', X, Y)), conj(call('d1', X), call('d1', Y)))], ('r', ['any', 'any']), d1)
    sk('member', [(F('mem', X, L(X, tail=_(1))), TRUE), (F('mem', X, L(_(2), tail=T)), call('mem', X, T))],
       ('mem', ['any', ('fixed', L(('sym', 0), V('Q1'), ('sym', 1)))]), {})
    sk('append', [(F('app', NIL, Y, Y), TRUE), (F('app', L(H, tail=T), Y, L(H, tail=R)), call('app', T, Y, R))],
       ('app', ['any', 'any', ('fixed', L(('sym', 0), ('sym', 1)))]), {})
    sk('eqneq', [(F('r', X, Y), conj(call('d1', X), eq(Z, F('f', X, Y)), call('d1', Y), neq(X, Y), eq(Z, F('f', _(1), _(2)))))],
       ('r', ['any', 'any']), d1)
    sk('alias', [(F('r', X), conj(eq(X, Y), call('d1', Y))), (F('r', X), conj(call('same', X, Y), call('d1', Y), eq(X, C(1)))),
                 (F('same', Z, Z), TRUE)],
       ('r', ['any']), {('d1', 1): nf})
    sk('cutmid', [(F('r', X, Y), conj(call('d1', X), CUT, call('d1', Y))), (F('r', C(0), C(0)), TRUE)], ('r', ['any', 'any']), d1)
    sk('cutlast', [(F('r', X), conj(call('d1', X), CUT)), (F('r', C(0)), TRUE)], ('r', ['any']), d1)
    sk('ite', [(F('r', X, Y), ('ite', call('d1', X), call('d1', Y), conj(eq(X, C(0)), eq(Y, C(0)))))], ('r', ['any', 'any']), d1)
    sk('itecont', [(F('r', X, Y), conj(('ite', call('d1', X), TRUE, eq(X, C(5))), call('d1', Y)))], ('r', ['any', 'any']), d1)
    sk('neg', [(F('r', X), conj(call('d1', X), ('not', call('d2', X, X))))], ('r', ['any']), d12)
    sk('once', [(F('r', X, Y), conj(call('once', F('d1', X)), call('d1', Y)))], ('r', ['any', 'any']), d1)
    sk('findall', [(F('r', Lq, Y), conj(call('d1', Y), call('findall', X, F('d2', X, Y), Lq)))], ('r', ['any', 'any']), d12)
    sk('user', [(F('r', X, Y), conj(call('d1', X), call('u', Y), call('d1', Y)))], ('r', ['any', 'any']), d1, user=True)
    sk('usercut', [(F('r', X, Y), conj(call('u', X), ('ite', call('d1', X), call('u', Y), eq(Y, C(0)))))], ('r', ['any', 'any']), d1, user=True)
    return S


MODES = ['exhaust', 'close', 'drop', 'throw', 'user-raise']


def make_body_b(sk, code, cap, info):
    spec = make_spec(sk) + [('k', 'int', '0 <= k <= 3'), ('mode', 'int', '0 <= mode <= 4'), ('j', 'int', '1 <= j <= 3')]
    ix = ch.index_of(spec)
    qname = sk['query'][0]

    def body(vals):
        reg = ch.install_registry(True)
        yp, interp, qb, real_args, ref_args = setup(sk, code, vals, ix)
        state = {'calls': 0, 'boom_at': 0, 'exc': None}

        def u(a):
            state['calls'] += 1
            if state['boom_at'] and state['calls'] == state['boom_at']:
                state['exc'] = Boom()
                raise state['exc']
            for r in (1, 2):
                for _ in unify(a, r):
                    yield False

        def ref_u(it, args, s):
            for r in (1, 2):
                s1 = runify(args[0], ('c', r), s)
                if s1 is not None:
                    yield s1
        if sk.get('user'):
            yp.register_function('u', u)
            interp.foreign[('u', 1)] = ref_u
        try:
            exp = ref_answers(interp, qname, ref_args, cap)
        except (Cyclic, StepLimit, RecursionError):
            return ch.HOLDS_TRIVIAL
        if len(exp) > cap:
            return ch.HOLDS_TRIVIAL
        mode, k = vals[ix['mode']], vals[ix['k']]
        if mode == 4:
            if not sk.get('user'):
                return ch.HOLDS_TRIVIAL
            state['boom_at'] = vals[ix['j']]
        got = []
        q = yp.query(qname, list(real_args))
        exhausted = False
        raised = None
        try:
            while True:
                if 1 <= mode <= 3 and len(got) >= k:
                    break
                try:
                    next(q)
                except StopIteration:
                    exhausted = True
                    break
                names = {}
                got.append(tuple([show(a, names) for a in real_args]))
                if len(got) > cap:
                    break
            if not exhausted:
                if mode == 1:
                    q.close()
                elif mode == 2:
                    del q
                elif mode == 3:
                    boom = Boom()
                    try:
                        q.throw(boom)
                        ch.note(info, 'throw() into the query was swallowed')
                        return ch.VIOLATED
                    except Boom as e:
                        if e is not boom:
                            ch.note(info, 'a different exception object came back from throw()')
                            return ch.VIOLATED
        except Boom as e:
            raised = e
        except Exception as e:
            ch.note(info, 'query raised %s: %s', type(e).__name__, str(e)[:150])
            return ch.VIOLATED
        if state['exc'] is not None and raised is not state['exc']:
            ch.note(info, 'the exception raised by the user predicate did not reach the consumer unchanged')
            return ch.VIOLATED
        if got != exp[:len(got)] or (exhausted and got != exp):
            ch.note(info, 'answers %r are not the expected prefix of %r', got, exp)
            return ch.VIOLATED
        q = None
        for v in reg.items:
            if v._is_bound:
                ch.note(info, 'after the query ended by %s (k=%r) a variable is still bound', MODES[int(mode)], k)
                return ch.VIOLATED
        # second run on the same engine and the same variables
        state['boom_at'] = 0
        try:
            again = real_answers(yp, qname, real_args, cap)
        except Exception as e:
            ch.note(info, 're-run raised %s: %s', type(e).__name__, str(e)[:150])
            return ch.VIOLATED
        if again != exp:
            ch.note(info, 're-run gave %r, expected %r', again, exp)
            return ch.VIOLATED
        for v in reg.items:
            if v._is_bound:
                ch.note(info, 'a variable is still bound after the re-run')
                return ch.VIOLATED
        return ch.HOLDS_NONTRIVIAL if (got or raised is not None) else ch.HOLDS_TRIVIAL
    return spec, body


def units(tier, seed):
    us = []
    for mode in range(4):
        for hist in (False, True):
            for k6 in range(len(SM[0])):
                if tier == 'quick' and hist and SM[0][k6] != 'v0':
                    continue
                fx = {'mode': mode, 'hist': hist, 'k4': k6}       # k4 = top symbol of t1 (slots: HL k0, HR k1-k3, t1 k4-k6, t2 k7-k9)
                if not hist:
                    fx.update({'k0': 0, 'k1': 0, 'k2': 0, 'k3': 0})
                us.append(dict(id='a.unify.%s.hist%d.t1=%s' % (MODES[mode], int(hist), SM[0][k6]), kind='a',
                               fixed=fx, ob='C03.a',
                               timeout=300 if tier == 'quick' else 1200, weight=40,
                               bounds='unify(t1,t2), t1 top %s, depth<=1; %s held-open history; finalised by %s before/after the answer'
                                      % (SM[0][k6], 'with' if hist else 'no', MODES[mode])))
    nf = 2 if tier == 'quick' else 3
    for sk in skeletons(nf):
        modes = range(5) if sk.get('user') else range(4)
        heavy = tier != 'quick' and sk['name'] in ('join', 'findall')
        for mode, m0 in [(mode, m0) for mode in modes for m0 in (range(6) if heavy else [None])]:
            us.append(dict(id='b.%s.%s%s' % (sk['name'], MODES[mode], '' if m0 is None else '.m0=%d' % m0), kind='b', skeleton=sk['name'], nf=nf,
                           fixed={'mode': mode} if m0 is None else {'mode': mode, 'm0': m0},
                           quick=(tier == 'quick'), ob='C03.b', timeout=300 if tier == 'quick' else 1500, weight=60, cap=8,
                           bounds='skeleton %s, <=%d facts, ended by %s at symbolic k<=3' % (sk['name'], nf, MODES[mode])))
    return us


def build(u):
    info = {}
    if u['kind'] == 'a':
        spec, body = make_body_a(info)
        return ch.harness_from_spec(u['id'], spec, u['fixed'], body, info=info)
    sk = [s for s in skeletons(u['nf']) if s['name'] == u['skeleton']][0]
    src, code, fail = compile_skeleton(sk)
    if fail is not None:
        return fail
    info['source'] = src
    spec, body = make_body_b(sk, code, u['cap'], info)
    extra = []
    if u.get('quick'):
        extra = ['%s <= 2' % p[0] for p in spec if p[0] == 'm0'] + ['%s == 0' % p[0] for p in spec if p[0] == 'm1']
    return ch.harness_from_spec(u['id'], spec, u['fixed'], body, extra_pre=extra, info=info)
