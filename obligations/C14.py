"""C14 - changing a predicate while it is being enumerated (logical update view).

Ob C14.a: p/1 starts with 0..N symbolic facts.  A symbolic schedule of L actions from
  0 E1   one step of a suspended enumeration  p(X)            (started at its first step)
  1 E2   one step of a suspended enumeration  retract(p(Y))   (started at its first step)
  2 asserta(p(c))   3 assertz(p(c))   4 retract(p(c)) once   5 retractall(p(c))
is executed against the real engine and against a snapshot model; every answer (or
exhaustion) of E1/E2 and the final contents of p/1 must agree.
"""
from crosshair.tracers import NoTracing

from vlib import ch

PROPERTY = 'C14'
FUNCTIONS = ['engine.YP._match_all_clauses', 'engine.YP.match_dynamic', 'engine.YP.retract', 'engine.YP.retractall',
             'engine.YP.assert_fact', 'engine.YP.asserta', 'engine.YP.assertz', 'engine.YP._update_predicate',
             'engine.YP.query', 'engine.Answer.match']
STUBS = []
ASSUMPTIONS = ['an enumeration starts (takes its snapshot) at its first step', 'facts are ground integers']
OUTSIDE = ['schedules longer than L', 'more than one suspended enumeration of each kind', 'more than N initial facts']
BOUNDS = {'quick': 'N=2 initial facts, schedules of L=4 actions (6 action kinds, symbolic constants), partitioned on the first two actions',
          'thorough': 'N=2 with L=5 and N=3 with L=4, partitioned on the first two actions'}
EXPLANATION = ('CrossHair executes the real query/retract generators and assert/retract builtins under a symbolic schedule that '
               'interleaves steps of two suspended enumerations with modifications of the same predicate; each observation is compared '
               'with a snapshot (logical update view) model on every path; CONFIRMED = path tree exhausted')
ACTIONS = ['E1', 'E2', 'asserta', 'assertz', 'retract1', 'retractall', 'scan']


NACT = 6        # 7 in the units that include the 'scan' action


def spec_for(n, length):
    spec = [('n', 'int', '0 <= n <= %d' % n)]
    spec += [('f%d' % i, 'int', None) for i in range(n)]
    for i in range(length):
        spec.append(('a%d' % i, 'int', '0 <= a%d <= %d' % (i, NACT - 1)))
        spec.append(('c%d' % i, 'int', None))
    return spec


def make_body(n, length, info):
    spec = spec_for(n, length)
    ix = ch.index_of(spec)

    def body(vals):
        ch.install_registry(False)
        g = lambda k: vals[ix[k]]
        yp = ch.new_engine()
        store = []           # model: list of [value]  (identity = the list object)
        for i in range(n):
            if i < g('n'):
                yp.assert_fact(yp.atom('p'), [g('f%d' % i)])
                store.append([g('f%d' % i)])
        X, Y = yp.variable(), yp.variable()
        e1 = e2 = None
        snap1 = snap2 = None
        pos1 = pos2 = 0
        observed = 0
        modified_while_suspended = False
        for step in range(length):
            a, c = g('a%d' % step), g('c%d' % step)
            act = ACTIONS[0]
            for j in range(len(ACTIONS)):
                if a == j:
                    act = ACTIONS[j]
            try:
                if act == 'E1':
                    if e1 is None:
                        e1 = yp.query('p', [X])
                        snap1 = list(store)
                    exp = None
                    if pos1 < len(snap1):
                        exp = snap1[pos1][0]
                        pos1 += 1
                    try:
                        next(e1)
                        got = X.get_value()
                    except StopIteration:
                        got = None
                        if X._is_bound:
                            ch.note(info, 'X still bound after the enumeration ended')
                            return ch.VIOLATED
                    if (got is None) != (exp is None) or (exp is not None and got != exp):
                        ch.note(info, 'step %d: enumeration p(X) gave %r, snapshot model %r', step, got, exp)
                        return ch.VIOLATED
                    observed += 1
                elif act == 'E2':
                    if e2 is None:
                        e2 = yp.query('retract', [yp.functor('p', [Y])])
                        snap2 = list(store)
                    exp = None
                    while pos2 < len(snap2):
                        item = snap2[pos2]
                        pos2 += 1
                        if any(x is item for x in store):
                            exp = item[0]
                            store = [x for x in store if x is not item]
                            break
                    try:
                        next(e2)
                        got = Y.get_value()
                    except StopIteration:
                        got = None
                    if (got is None) != (exp is None) or (exp is not None and got != exp):
                        ch.note(info, 'step %d: enumeration retract(p(Y)) gave %r, model %r', step, got, exp)
                        return ch.VIOLATED
                    observed += 1
                elif act == 'scan':
                    # a second, complete enumeration of the same predicate while the others are suspended
                    Zs = yp.variable()
                    got = []
                    for _ in yp.query('p', [Zs]):
                        got.append(Zs.get_value())
                        if len(got) > 12:
                            break
                    if got != [x[0] for x in store]:
                        ch.note(info, 'step %d: complete enumeration gave %r, model %r', step, got, [x[0] for x in store])
                        return ch.VIOLATED
                else:
                    if e1 is not None or e2 is not None:
                        modified_while_suspended = True
                    if act == 'asserta':
                        for _ in yp.query('asserta', [yp.functor('p', [c])]):
                            pass
                        store = [[c]] + store
                    elif act == 'assertz':
                        for _ in yp.query('assertz', [yp.functor('p', [c])]):
                            pass
                        store = store + [[c]]
                    elif act == 'retract1':
                        q = yp.query('retract', [yp.functor('p', [c])])
                        hit = False
                        for _ in q:
                            hit = True
                            break
                        q.close()
                        exp_hit = False
                        for item in store:
                            if item[0] == c:
                                store = [x for x in store if x is not item]
                                exp_hit = True
                                break
                        if hit != exp_hit:
                            ch.note(info, 'step %d: retract(p(c)) succeeded=%r, model %r', step, hit, exp_hit)
                            return ch.VIOLATED
                    else:
                        cnt = 0
                        for _ in yp.query('retractall', [yp.functor('p', [c])]):
                            cnt += 1
                        if cnt != 1:
                            ch.note(info, 'retractall succeeded %d times', cnt)
                            return ch.VIOLATED
                        store = [x for x in store if x[0] != c]
            except Exception as e:
                ch.note(info, 'step %d (%s) raised %s: %s', step, act, type(e).__name__, str(e)[:150])
                return ch.VIOLATED
        if e1 is not None:
            e1.close()
        if e2 is not None:
            e2.close()
        Z = yp.variable()
        final = []
        for _ in yp.query('p', [Z]):
            final.append(Z.get_value())
            if len(final) > 12:
                break
        if final != [x[0] for x in store]:
            ch.note(info, 'final contents %r, model %r', final, [x[0] for x in store])
            return ch.VIOLATED
        if X._is_bound or Y._is_bound:
            ch.note(info, 'enumeration variable still bound after close')
            return ch.VIOLATED
        return ch.HOLDS_NONTRIVIAL if (observed and modified_while_suspended) else ch.HOLDS_TRIVIAL
    return spec, body


def units(tier, seed):
    us = []
    import itertools
    configs = [(2, 4, 2, 'a')] if tier == 'quick' else [(2, 5, 2, 'a5'), (3, 4, 2, 'a')]
    for n, length, depth, tag in configs:
        for combo in itertools.product(range(6), repeat=depth):
            fx = {'a%d' % i: a for i, a in enumerate(combo)}
            us.append(dict(id=tag + '.' + '-'.join(ACTIONS[a] for a in combo), n=n, length=length, fixed=fx, ob='C14.a',
                           timeout=300 if tier == 'quick' else 900, weight=40,
                           bounds='%d initial facts max, schedule length %d starting with %s' % (n, length, [ACTIONS[a] for a in combo])))
    # a complete enumeration between the steps of a suspended one, followed by modifications (7 action kinds)
    for combo in ((0, 6), (6, 0), (1, 6)):
        fx = {'a%d' % i: a for i, a in enumerate(combo)}
        us.append(dict(id='s.' + '-'.join(ACTIONS[a] for a in combo), n=2, length=4, fixed=fx, nact=7, ob='C14.a', timeout=300 if tier == 'quick' else 900, weight=40,
                       bounds='2 initial facts max, schedule length 4 starting with %s, 7 action kinds incl. a complete scan' % [ACTIONS[a] for a in combo]))
    if tier == 'quick':
        # interleavings of the two enumerations over THREE initial facts (index shifts under in-place removal need a third fact)
        for combo in ((0, 1), (1, 0), (1, 1), (0, 0)):
            fx = {'a%d' % i: a for i, a in enumerate(combo)}
            fx['n'] = 3
            us.append(dict(id='a3.' + '-'.join(ACTIONS[a] for a in combo), n=3, length=4, fixed=fx, ob='C14.a', timeout=300, weight=40,
                           bounds='exactly 3 initial facts, schedule length 4 starting with %s' % [ACTIONS[a] for a in combo]))
    return us


def build(u):
    global NACT
    info = {}
    NACT = u.get('nact', 6)
    spec, body = make_body(u['n'], u['length'], info)
    return ch.harness_from_spec(u['id'], spec, u['fixed'], body, info=info)
