"""C13 - a stored fact is an independent copy of the asserted term.

Ob C13.a: a term T over a pool of 3 variables is asserted (assertz(p(T)) through the
builtin) under a symbolic binding history: up to 2 unifications V_w = term made BEFORE
the assertion and up to 1 made AFTER it (binding a variable of T later), all held open.
The fact is then used twice in a conjunction  p(P1), p(P2)  with symbolic patterns over
pattern variables W0 W1 W2 (shared between the two uses or not) - either while the
bindings are still active (inside the asserting context) or after everything was
backtracked.  Oracle: refprolog (stores the fully dereferenced term, fresh variables at
every use).  Compared at every answer: canonical forms of P1, P2, every pattern variable
AND every pool variable (a use must not constrain the asserting clause).
"""
from vlib import ch
from vlib.terms import Decoder, runify, resolve, show, Cyclic, slot_alphabet_sizes
from vlib.refprolog import Interp
from obligations.C15 import TEMPLATES, realise, BIND, NAMES, NV
from yldprolog.engine import unify, Variable, Functor

PROPERTY = 'C13'
FUNCTIONS = ['engine.YP.assertz', 'engine.YP.assert_fact', 'engine._rename_variables', 'engine.Answer.match',
             'engine.get_value', 'engine.Functor.get_value', 'engine.Variable.get_value', 'engine.unify',
             'engine.unify_arrays', 'engine.YP.query', 'engine.YP.match_dynamic', 'engine.YP._match_all_clauses']
STUBS = []
ASSUMPTIONS = ['names concrete (a, b, f/1, g/2); one stored fact']
OUTSIDE = ['more than 3 bindings', 'more than 2 simultaneous uses', 'terms deeper than the templates', 'cyclic-term cases']
BOUNDS = {'quick': 'T from 5 templates; <=2 bindings before + <=1 after the assertion (V_w = v|int|f(v|int)); two uses with patterns '
                   'over {W0 W1 int a f(.) g(.,.)} depth<=1; inside/outside the asserting context',
          'thorough': 'same, all partitions, 2 bindings before and 1 after with full alphabets'}
EXPLANATION = ('CrossHair executes assertz and the fact look-up on terms whose variables are bound by real unify generators before/after '
               'the assertion in a symbolic order, then matches the stored fact against two symbolic patterns; every answer (patterns, '
               'pattern variables, pool variables) is compared with the reference copy semantics; CONFIRMED = path tree exhausted')
BIND_S = [['v0', 'v1', 'int', 'F1'], ['v1', 'v2', 'int']]          # bindings of the storage obligation
# facts with two top-level arguments that share a variable (renaming must be consistent across arguments)
FACT_ARGS = {
    'p(v0,v0)': [('v', 0), ('v', 0)],
    'p(v0,f(v0))': [('v', 0), ('f', 'f', (('v', 0),))],
    'p(g(v0,v1),v1)': [('f', 'g', (('v', 0), ('v', 1))), ('v', 1)],
}
# templates used by C13 only: partial lists (open tail) - to_python leaves them unspecified, so C15 does not use them
EXTRA_TEMPLATES = {
    '[v0|v1]': ('f', '.', (('v', 0), ('v', 1))),
    'f([a,v0|v1])': ('f', 'f', (('f', '.', (('a', 'a'), ('f', '.', (('v', 0), ('v', 1))))),)),
}
PAT_READ = [['v0']]                                                  # p(W0): reads the stored term back
PAT_2ND = [['v0', 'v1', 'int']]
PAT_RICH = [['v0', 'v1', 'int', 'A', 'F1'], ['v0', 'v1', 'int']]     # patterns of the uses obligation
PAT_RICH2 = [['v0', 'int', 'F1', 'F2'], ['v0', 'v1', 'int']]         # with the binary functor, no bindings
FAMILIES = {
    'storage': (BIND_S, PAT_READ, PAT_2ND),
    'uses': (BIND_S, PAT_RICH, PAT_RICH),
    'uses2': (BIND_S, PAT_RICH2, PAT_RICH2),
}


def spec_for(nb, fam):
    BINDL, P1L, P2L = FAMILIES[fam]
    spec = []
    k = 0
    for levels in [BINDL] * nb + [P1L, P2L]:
        for size in slot_alphabet_sizes(levels):
            spec.append(('k%d' % k, 'int', '0 <= k%d <= %d' % (k, size - 1)))
            k += 1
    nc = k
    for i in range(nc):
        spec.append(('i%d' % i, 'int', None))
    for j in range(nb):
        spec.append(('w%d' % j, 'int', '0 <= w%d <= %d' % (j, NV - 1)))
    spec.append(('nbefore', 'int', '0 <= nbefore <= %d' % (nb - 1)))
    spec.append(('after', 'bool', None))
    spec.append(('inside', 'bool', None))
    return spec, nc


def make_body(template, fam, info):
    nb = 3
    BINDL, P1L, P2L = FAMILIES[fam]
    spec, nc = spec_for(nb, fam)
    ix = ch.index_of(spec)
    targs = FACT_ARGS[template] if template in FACT_ARGS else [dict(TEMPLATES, **EXTRA_TEMPLATES)[template]]

    def body(vals):
        ch.install_registry(False)
        yp = ch.new_engine()
        vs = [Variable() for _ in range(NV)]
        ws = [Variable() for _ in range(3)]
        dec = Decoder(vs, NAMES, vals[:nc], vals[nc:2 * nc])
        Ts = [realise(t, vs) for t in targs]
        binds = []
        for j in range(nb):
            t, r = dec.term(BINDL)
            w = vals[ix['w%d' % j]]
            which = 0
            for i in range(NV):
                if w == i:
                    which = i
            binds.append((which, t, r))
        dec.vars = ws
        P1, rP1 = dec.term(P1L)
        P2, rP2 = dec.term(P2L)
        # reference pattern variables live at ids 10,11,12 (pool variables are 0,1,2)
        rP1, rP2 = _shift(rP1), _shift(rP2)
        if len(targs) == 1:
            A1, rA1, A2, rA2 = [P1], [rP1], [P2], [rP2]
        else:
            # two-argument facts: first use reads both arguments back, second use applies the decoded pattern to the first
            A1, rA1 = [P1, ws[1]], [rP1, ('v', 11)]
            A2, rA2 = [P2, ws[2]], [rP2, ('v', 12)]
        nbefore = vals[ix['nbefore']]
        after = vals[ix['after']]
        inside = vals[ix['inside']]
        interp = Interp([])
        interp._next = 1000
        s = {}
        plan = []          # indices of bindings actually made, in order; position of the assertion
        try:
            for j in range(nb - 1):
                if j < nbefore:
                    s = runify(('v', binds[j][0]), binds[j][2], s)
                    if s is None:
                        return ch.HOLDS_TRIVIAL
                    plan.append(j)
            interp.assert_fact('p', tuple(targs), s)
            n_before = len(plan)
            if after:
                s = runify(('v', binds[nb - 1][0]), binds[nb - 1][2], s)
                if s is None:
                    return ch.HOLDS_TRIVIAL
                plan.append(nb - 1)
            s_use = s if inside else {}
            exp = []
            for s1 in interp.query('p', rA1, s_use):
                for s2 in interp.query('p', rA2, s1):
                    names = {}
                    exp.append(tuple([resolve(t, s2, names) for t in rA1 + rA2 + [('v', 10), ('v', 11), ('v', 12),
                                                                                  ('v', 0), ('v', 1), ('v', 2)]]))
        except Cyclic:
            return ch.HOLDS_TRIVIAL
        # real
        opened = []
        try:
            for pos, j in enumerate(plan):
                if pos == n_before:
                    cnt = 0
                    for _ in yp.query('assertz', [Functor('p', list(Ts))]):
                        cnt += 1
                    if cnt != 1:
                        ch.note(info, 'assertz succeeded %d times', cnt)
                        return ch.VIOLATED
                it = iter(unify(vs[binds[j][0]], binds[j][1]))
                try:
                    next(it)
                except StopIteration:
                    ch.note(info, 'binding failed although the reference succeeds')
                    return ch.VIOLATED
                opened.append(it)
            if n_before == len(plan):
                for _ in yp.query('assertz', [Functor('p', list(Ts))]):
                    pass
            if not inside:
                for it in reversed(opened):
                    it.close()
                opened = []
            got = []
            for _ in yp.query('p', list(A1)):
                for _ in yp.query('p', list(A2)):
                    names = {}
                    got.append(tuple([show(t, names) for t in A1 + A2 + ws + vs]))
                    if len(got) > 6:
                        break
                if len(got) > 6:
                    break
            for it in reversed(opened):
                it.close()
        except Exception as e:
            ch.note(info, 'raised %s: %s', type(e).__name__, str(e)[:150])
            return ch.VIOLATED
        if got != exp:
            ch.note(info, 'uses of the stored fact gave %r, reference %r', got, exp)
            return ch.VIOLATED
        for v in vs + ws:
            if v._is_bound:
                ch.note(info, 'variable still bound at the end')
                return ch.VIOLATED
        return ch.HOLDS_NONTRIVIAL if (exp and (plan or fam == 'uses2' or template in EXTRA_TEMPLATES)) else ch.HOLDS_TRIVIAL
    return spec, body


def make_body_d(info):
    """two stored facts p(0, 0) and p(f(_), _); an enumeration p(X, Y) and a second use that binds the non-ground fact
    (a retract or a query solution, held open) are stepped in a symbolic order: what one use binds, the other must not see,
    and the enumeration visits the facts that existed when it started"""
    spec = [('c', 'int', None), ('order', 'int', '0 <= order <= 1'), ('second', 'int', '0 <= second <= 1')]

    def body(vals):
        c, order, second = vals
        ch.install_registry(False)
        yp = ch.new_engine()
        yp.assert_fact(yp.atom('p'), [0, 0])
        yp.assert_fact(yp.atom('p'), [yp.functor('f', [yp.variable()]), yp.variable()])
        X, Y, Z = yp.variable(), yp.variable(), yp.variable()
        try:
            e1 = yp.query('p', [X, Y])
            if second == 0:
                e2 = yp.query('retract', [yp.functor('p', [yp.functor('f', [c]), Z])])
            else:
                e2 = yp.query('p', [yp.functor('f', [c]), c])
            steps = (e1, e2, e1) if order == 0 else (e2, e1, e1)
            seen = []
            for gen_ in steps:
                try:
                    next(gen_)
                    names = {}
                    seen.append((show(X, names), show(Y, names)))
                except StopIteration:
                    seen.append(None)
            e1.close()
            e2.close()
        except Exception as e:
            ch.note(info, 'raised %s: %s', type(e).__name__, str(e)[:120])
            return ch.VIOLATED
        first = (('c', 0), ('c', 0))
        fresh = (('f', 'f', (('v', 0),)), ('v', 1))          # the stored term with variables of the enumeration's own
        unbound = (('v', 0), ('v', 1))
        if order == 0:
            exp = [first, first, fresh]                      # e1 started before the retract: it still visits the second fact
        else:
            exp = [unbound, first, None if second == 0 else fresh]
        if seen != exp:
            ch.note(info, 'order %r, second use %r: observed %r, expected %r', order, second, seen, exp)
            return ch.VIOLATED
        return ch.HOLDS_NONTRIVIAL
    return spec, body


def _shift(t):
    if t[0] == 'v':
        return ('v', t[1] + 10)
    if t[0] == 'f':
        return ('f', t[1], tuple([_shift(a) for a in t[2]]))
    return t


def units(tier, seed):
    us = []
    names = list(TEMPLATES) if tier != 'quick' else ['v0', 'g(v0,v1)', 'g(v1,f(v0))']

    def add(fam, t, nbefore, after, inside, timeout):
        fixed = {'nbefore': nbefore, 'after': after, 'inside': inside}
        # bindings that are not used are pinned (they would only multiply identical paths)
        if nbefore < 2:
            fixed.update({'k3': 0, 'k4': 0, 'k5': 0, 'w1': 0})
        if nbefore < 1:
            fixed.update({'k0': 0, 'k1': 0, 'k2': 0, 'w0': 0})
        if not after:
            fixed.update({'k6': 0, 'k7': 0, 'k8': 0, 'w2': 0})
        us.append(dict(id='%s.T=%s.before%d.after%d.%s' % ({'storage': 'a', 'uses': 'b', 'uses2': 'c'}[fam], t, nbefore, int(after),
                                                           'inside' if inside else 'outside'),
                       template=t, family=fam, fixed=fixed, ob={'storage': 'C13.a', 'uses': 'C13.b', 'uses2': 'C13.c'}[fam], timeout=timeout,
                       weight=timeout / 4,
                       bounds='%s obligation: T=%s, %d bindings before, %d after the assertion (alphabet %r), patterns %r / %r, uses %s '
                              'the asserting context' % (fam, t, nbefore, int(after), FAMILIES[fam][0], FAMILIES[fam][1],
                                                         FAMILIES[fam][2], 'inside' if inside else 'outside')))
    for t in FACT_ARGS:
        for inside in (False, True):
            add('storage', t, 1, True, inside, 300 if tier == 'quick' else 1500)
    for t in EXTRA_TEMPLATES:
        add('storage', t, 1, True, False, 300 if tier == 'quick' else 1500)
        add('uses', t, 0, False, True, 300 if tier == 'quick' else 1500)
    for t in names:
        add('uses2', t, 0, False, False, 300 if tier == 'quick' else 1500)
    for t in names:
        for inside in (False, True):
            if tier == 'quick':
                add('storage', t, 1, True, inside, 300)
                if not inside:
                    add('storage', t, 2, False, inside, 300)
                add('uses', t, 1, False, inside, 300)
            else:
                for nbefore in (1, 2):
                    for after in (False, True):
                        add('storage', t, nbefore, after, inside, 1200)
                add('uses', t, 1, False, inside, 900)
    us.append(dict(id='d.simultaneous-uses', template='-', family='d', fixed={}, ob='C13.d', timeout=200, weight=20,
                   bounds='one non-ground fact p(f(_), _); an enumeration and a retract/query solution held open together, 3 orders'))
    return us


def build(u):
    info = {}
    if u['family'] == 'd':
        spec, body = make_body_d(info)
        return ch.harness_from_spec(u['id'], spec, u['fixed'], body, info=info)
    spec, body = make_body(u['template'], u['family'], info)
    return ch.harness_from_spec(u['id'], spec, u['fixed'], body, info=info)
