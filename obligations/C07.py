"""C07 - the fact database behaves as ordered lists for every history.

Ob C07.a: ONE operation from an ARBITRARY state.  State: p/1, q/2, f/0 with 0..N facts
each (integer arguments symbolic), built through assert_fact.  Operation, target
predicate (p, q, f or the never-asserted u/1), pattern (every argument variable, constant
or alias of the first variable), goal form (term passed directly / held in a bound
variable), abandonment point and mode are symbolic.  Oracle: a list model.  After the
step the full contents of every predicate are read back with all-variable queries.

Ob C07.b (thorough): two consecutive operations, partitioned on the pair of op codes.
"""
from crosshair.tracers import NoTracing

from vlib import ch
from yldprolog.engine import YP, unify, Variable

PROPERTY = 'C07'
FUNCTIONS = ['engine.YP.assert_fact', 'engine.YP.asserta', 'engine.YP.assertz', 'engine.YP.retract',
             'engine.YP.retractall', 'engine.YP.clear', 'engine.YP._find_predicates', 'engine.YP._update_predicate',
             'engine.YP.match_dynamic', 'engine.YP._match_all_clauses', 'engine.Answer.match',
             'engine._rename_variables', 'engine.YP.query', 'engine.unify_arrays', 'engine.unify']
STUBS = []
ASSUMPTIONS = ['asserted facts are ground (non-ground facts are C13); states are built by assert_fact calls',
               'one step from an arbitrary state covers histories of any length provided the store is a function of '
               'its contents (aliasing exceptions are C14)']
OUTSIDE = ['more than N facts per predicate', 'more than two consecutive symbolic steps', 'non-integer arguments']
BOUNDS = {'quick': 'p/1, q/2, f/0 with 0..2 facts each (unbounded symbolic ints), 8 operations x 4 targets, patterns var/const/alias, '
                   'goal direct or in a bound variable, abandonment after k<=3 answers by close or drop',
          'thorough': '0..3 facts each for single steps; two-step histories with 0..2 facts, partitioned on the op pair'}
EXPLANATION = ('CrossHair executes the real database operations on an engine whose fact store was filled with symbolic facts; '
               'operation arguments, patterns and abandonment points are symbolic; answers of the step and the read-back of every '
               'predicate are compared with a list model on every path; CONFIRMED = path tree exhausted')

OPS = ['assertz', 'asserta', 'assert_fact_append', 'assert_fact_prepend', 'query', 'retract', 'retractall', 'clear']
PREDS = [('p', 1), ('q', 2), ('f', 0), ('u', 1)]


def spec_for(nmax, steps):
    spec = [('np', 'int', '0 <= np <= %d' % nmax), ('nq', 'int', '0 <= nq <= %d' % nmax), ('nf', 'int', '0 <= nf <= %d' % nmax)]
    for i in range(nmax):
        spec.append(('p%d' % i, 'int', None))
    for i in range(nmax):
        spec.append(('q%da' % i, 'int', None))
        spec.append(('q%db' % i, 'int', None))
    for s in range(steps):
        spec += [('op%d' % s, 'int', '0 <= op%d <= 7' % s), ('tp%d' % s, 'int', '0 <= tp%d <= 3' % s),
                 ('ma%d' % s, 'int', '0 <= ma%d <= 1' % s), ('mb%d' % s, 'int', '0 <= mb%d <= 2' % s),
                 ('ca%d' % s, 'int', None), ('cb%d' % s, 'int', None),
                 ('gf%d' % s, 'int', '0 <= gf%d <= 1' % s), ('k%d' % s, 'int', '0 <= k%d <= 3' % s),
                 ('drop%d' % s, 'bool', None)]
    return spec


def read_back(yp):
    out = {}
    for name, arity in PREDS:
        vs = [yp.variable() for _ in range(arity)]
        rows = []
        for _ in yp.query(name, vs):
            rows.append(tuple([v.get_value() for v in vs]))
            if len(rows) > 12:
                break
        out[(name, arity)] = rows
    # the database builtins are alive (as goals) in every reachable state: assert / read / retract a probe fact
    n1 = 0
    for _ in yp.query('assertz', [yp.functor('zz_probe', [7])]):
        n1 += 1
    v = yp.variable()
    seen = []
    for _ in yp.query('zz_probe', [v]):
        seen.append(v.get_value())
    n2 = 0
    for _ in yp.query('retract', [yp.functor('zz_probe', [7])]):
        n2 += 1
    n3 = 0
    for _ in yp.query('retractall', [yp.functor('zz_never', [1])]):
        n3 += 1
    out['builtin-probe'] = (n1, seen, n2, n3)
    return out


def matches(row, pat):
    """pat: list of ('v', varindex) / ('c', const); returns bindings list or None"""
    env = {}
    for x, p in zip(row, pat):
        if p[0] == 'c':
            if x != p[1]:
                return None
        else:
            if p[1] in env:
                if env[p[1]] != x:
                    return None
            else:
                env[p[1]] = x
    return env


def make_body(nmax, steps, info):
    spec = spec_for(nmax, steps)
    ix = ch.index_of(spec)

    def body(vals):
        ch.install_registry(False)
        g = lambda n: vals[ix[n]]
        yp = ch.new_engine()
        model = {k: [] for k in PREDS}
        for i in range(nmax):
            if i < g('np'):
                yp.assert_fact(yp.atom('p'), [g('p%d' % i)])
                model[('p', 1)].append((g('p%d' % i),))
        for i in range(nmax):
            if i < g('nq'):
                yp.assert_fact(yp.atom('q'), [g('q%da' % i), g('q%db' % i)])
                model[('q', 2)].append((g('q%da' % i), g('q%db' % i)))
        for i in range(nmax):
            if i < g('nf'):
                yp.assert_fact(yp.atom('f'), [])
                model[('f', 0)].append(())
        nontrivial = False
        for s in range(steps):
            op, tp = g('op%d' % s), g('tp%d' % s)
            name, arity = PREDS[0]
            for j in range(len(PREDS)):
                if tp == j:
                    name, arity = PREDS[j]
            key = (name, arity)
            opname = OPS[0]
            for j in range(len(OPS)):
                if op == j:
                    opname = OPS[j]
            is_assert = opname in ('assertz', 'asserta', 'assert_fact_append', 'assert_fact_prepend')
            # pattern
            pvars = []
            args, pat = [], []
            for pos in range(arity):
                mode = 1 if is_assert else (g('ma%d' % s) if pos == 0 else g('mb%d' % s))
                const = g('ca%d' % s) if pos == 0 else g('cb%d' % s)
                if mode == 1:
                    args.append(const)
                    pat.append(('c', const))
                elif mode == 2 and pvars:
                    args.append(pvars[0])
                    pat.append(('v', 0))
                else:
                    v = yp.variable()
                    pvars.append(v)
                    args.append(v)
                    pat.append(('v', len(pvars) - 1))
            term = yp.atom(name) if arity == 0 else yp.functor(name, args)
            goal, held = term, None
            if g('gf%d' % s) == 1:
                goal = yp.variable()
                held = iter(unify(goal, term))
                next(held)
            try:
                if name == 'u':
                    nontrivial = True       # operations on a predicate nothing was asserted for must not raise
                if opname == 'clear':
                    yp.clear()
                    for kk in PREDS:
                        if model[kk]:
                            nontrivial = True
                    model = {k: [] for k in PREDS}
                    answers, expected = [], []
                elif opname in ('assert_fact_append', 'assert_fact_prepend'):
                    call_args, helds = list(args), []
                    if g('gf%d' % s) == 1:
                        # the values arrive in variables that are bound at the time of the call
                        call_args = []
                        for x in args:
                            v, w = yp.variable(), yp.variable()
                            it0 = iter(unify(v, w))          # alias first, value afterwards: a chain of two bindings
                            next(it0)
                            it = iter(unify(w, x))
                            next(it)
                            helds += [it, it0]
                            call_args.append(v)
                    yp.assert_fact(yp.atom(name), call_args, opname == 'assert_fact_append')
                    for it in helds:
                        it.close()
                    row = tuple([p[1] for p in pat])
                    model[key] = model[key] + [row] if opname == 'assert_fact_append' else [row] + model[key]
                    answers, expected = [], []
                    nontrivial = True
                else:
                    if opname == 'query':
                        q = yp.query(name, args)
                    else:
                        q = yp.query(opname, [goal])
                    k = g('k%d' % s)
                    answers = []
                    exhausted = False
                    while True:
                        if opname in ('query', 'retract') and len(answers) >= k and k < 3:
                            break
                        try:
                            next(q)
                        except StopIteration:
                            exhausted = True
                            break
                        answers.append(tuple([v.get_value() for v in pvars]))
                        if len(answers) > 12:
                            break
                    if not exhausted:
                        if g('drop%d' % s):
                            del q
                        else:
                            q.close()
                    # model
                    rows = model[key]
                    if opname == 'query':
                        hits = [matches(r, pat) for r in rows]
                        expected = [tuple([e[i] for i in range(len(pvars))]) for e in hits if e is not None]
                        if k < 3:
                            expected = expected[:k]
                        if expected:
                            nontrivial = True
                    elif opname == 'retract':
                        expected, remaining = [], []
                        for r in rows:
                            e = matches(r, pat)
                            if e is not None and (k >= 3 or len(expected) < k):
                                expected.append(tuple([e[i] for i in range(len(pvars))]))
                            else:
                                remaining.append(r)
                        model[key] = remaining
                        if expected:
                            nontrivial = True
                    elif opname == 'retractall':
                        model[key] = [r for r in rows if matches(r, pat) is None]
                        expected = [()]
                        answers = [() for _ in answers]
                        if len(model[key]) < len(rows):
                            nontrivial = True
                    else:
                        row = tuple([p[1] for p in pat])
                        model[key] = model[key] + [row] if opname == 'assertz' else [row] + model[key]
                        expected = [()]
                        answers = [() for _ in answers]
                        nontrivial = True
            except Exception as e:
                ch.note(info, 'step %d (%s on %s/%d) raised %s: %s', s, opname, name, arity, type(e).__name__, str(e)[:150])
                return ch.VIOLATED
            if held is not None:
                held.close()
            if answers != expected:
                ch.note(info, 'step %d (%s on %s/%d): answers %r, model %r', s, opname, name, arity, answers, expected)
                return ch.VIOLATED
            for v in pvars:
                if v._is_bound:
                    ch.note(info, 'step %d (%s): pattern variable still bound afterwards', s, opname)
                    return ch.VIOLATED
            try:
                back = read_back(yp)
            except Exception as e:
                ch.note(info, 'read-back raised %s: %s', type(e).__name__, str(e)[:150])
                return ch.VIOLATED
            if back.pop('builtin-probe') != (1, [7], 1, 1):
                ch.note(info, 'after step %d (%s): assertz/retract/retractall used as goals no longer work', s, opname)
                return ch.VIOLATED
            if back != model:
                ch.note(info, 'after step %d (%s on %s/%d): contents %r, model %r', s, opname, name, arity, back, model)
                return ch.VIOLATED
        return ch.HOLDS_NONTRIVIAL if nontrivial else ch.HOLDS_TRIVIAL
    return spec, body


def units(tier, seed):
    us = []
    nmax = 2 if tier == 'quick' else 3
    for op in range(len(OPS)):
        tps = [0] if OPS[op] == 'clear' else range(len(PREDS))
        for tp in tps:
            parts = [{}]
            if OPS[op] in ('query', 'retract', 'retractall') and PREDS[tp][0] == 'q':
                parts = [{'ma0': a, 'mb0': b} for a in (0, 1) for b in (0, 1, 2)]
            elif OPS[op] in ('query', 'retract') and tier != 'quick':
                parts = [{'ma0': a} for a in (0, 1)]
            for fx in parts:
                tag = ''.join('.%s%d' % kv for kv in sorted(fx.items()))
                heavy = OPS[op] in ('query', 'retract', 'retractall')
                us.append(dict(id='a.%s.%s%s' % (OPS[op], PREDS[tp][0], tag), nmax=nmax, steps=1,
                               fixed=dict({'op0': op, 'tp0': tp}, **fx),
                               ob='C07.a', timeout=400 if tier == 'quick' else 700, weight=100 if heavy else 12,
                               bounds='one %s on %s/%d (pattern modes %r) from a state with 0..%d facts per predicate'
                                      % (OPS[op], PREDS[tp][0], PREDS[tp][1], fx, nmax)))
    if tier != 'quick':
        core = [i for i, o in enumerate(OPS) if o in ('assertz', 'asserta', 'query', 'retract', 'retractall')]
        for op0 in core:
            for op1 in core:
                for tp in (0,):
                    us.append(dict(id='b.%s-%s.%s' % (OPS[op0], OPS[op1], PREDS[tp][0]), nmax=2, steps=2,
                                   fixed={'op0': op0, 'op1': op1, 'tp0': tp, 'tp1': tp, 'gf0': 0, 'gf1': 0},
                                   ob='C07.b', timeout=600, weight=200,
                                   bounds='%s then %s on %s, 0..2 facts per predicate' % (OPS[op0], OPS[op1], PREDS[tp][0])))
    return us


def build(u):
    info = {}
    spec, body = make_body(u['nmax'], u['steps'], info)
    return ch.harness_from_spec(u['id'], spec, u['fixed'], body, info=info)
