"""C01 - compiled clauses compute exactly Prolog's answers, in order.

Ob C01.a: skeleton family F01 (listed below; each skeleton exercises one of the anchor
mechanisms) x symbolic dynamic facts (count and all integer arguments) x symbolic query
binding pattern (fresh variable / alias of an earlier variable / integer constant / f(V) /
[V|W] / [c,V]) vs the independent SLD interpreter vlib.refprolog."""
from vlib import ch
from vlib.sld import (V, A, C, F, L, NIL, call, conj, eq, neq, TRUE, FAIL, build_sld_unit, NMODES)

PROPERTY = 'C01'
FUNCTIONS = ['generated clause functions of every skeleton (compiled by the current compiler at run time)',
             'engine.YP.query', 'engine.YP.match_dynamic', 'engine.YP._match_all_clauses', 'engine.Answer.match',
             'engine._rename_variables', 'engine.unify', 'engine.unify_arrays', 'engine.Variable.unify',
             'engine.Atom.unify', 'engine.Functor.unify', 'engine.get_value', 'engine.YP.assert_fact',
             'engine.builtin_eq', 'engine.YP.builtin_neq']
STUBS = ['ANTLR front end + compiler run natively on the text printed from the reference AST of each skeleton']
ASSUMPTIONS = ['answers are compared up to 12 (quick) answers; an implementation producing more than the reference, or raising, is a violation',
               'paths on which the reference needs a cyclic term or exceeds its step limit are counted trivial']
OUTSIDE = ['programs outside the listed skeleton family', 'more facts / longer lists than stated', 'searches beyond the answer cap']
BOUNDS = {'quick': '14 skeletons; <=2 facts per dynamic predicate with unbounded symbolic integer arguments; every query argument in 6 symbolic modes; answer cap 12',
          'thorough': 'same skeletons with <=3 facts per dynamic predicate, answer cap 16'}
EXPLANATION = ('CrossHair executes YP.query over the generated Python of each skeleton with the dynamic fact base and the query '
               'arguments symbolic; on every path the canonically renamed answer sequence (captures aliasing, order, multiplicity) '
               'must equal the reference SLD interpreter\'s; CONFIRMED = path tree exhausted')

_ = lambda k: V('_anon%d' % k)
X, Y, Z, T, H, N, R, W = [V(n) for n in 'XYZTHNRW']


def skeletons(nf):
    S = []

    def sk(name, clauses, query, facts, **kw):
        S.append(dict(name=name, clauses=clauses, query=query, facts=facts, **kw))
    sk('join', [(F('r', X, Y), conj(call('d2', X, Z), call('d2', Z, Y)))],
       ('r', ['any', 'any']), {('d2', 2): nf})
    sk('rephead', [(F('r', X, X), call('d1', X)), (F('r', X, Y), call('d2', X, Y))],
       ('r', ['any', 'any']), {('d1', 1): nf, ('d2', 2): 1})
    sk('nestedrep', [(F('r', X, F('f', X, Y)), conj(call('d1', X), call('d1', Y)))],
       ('r', ['any', 'any']), {('d1', 1): nf})
    sk('arity0', [(A('r0'), conj(call('d1', X), call('d1', X))), (F('r', Y), conj(call('r0'), call('d1', Y)))],
       ('r', ['any']), {('d1', 1): nf})
    sk('anon', [(F('r', X), conj(call('d2', X, _(1)), call('d2', _(2), X)))],
       ('r', ['any']), {('d2', 2): nf})
    sk('member', [(F('mem', X, L(X, tail=_(1))), TRUE), (F('mem', X, L(_(2), tail=T)), call('mem', X, T))],
       ('mem', ['any', ('fixed', L(('sym', 0), V('Q1'), ('sym', 1)))]), {})
    sk('append', [(F('app', NIL, Y, Y), TRUE), (F('app', L(H, tail=T), Y, L(H, tail=R)), call('app', T, Y, R))],
       ('app', ['any', 'any', ('fixed', L(('sym', 0), ('sym', 1)))]), {})
    sk('path', [(F('path', X, Y), call('d2', X, Y)), (F('path', X, Y), conj(call('d2', X, Z), call('path', Z, Y)))],
       ('path', ['any', 'any']), {('d2', 2): nf}, max_steps=60)
    sk('neq', [(F('r', X, Y), conj(call('d1', X), call('d1', Y), neq(X, Y)))],
       ('r', ['any', 'any']), {('d1', 1): nf})
    sk('eqstruct', [(F('r', X, Y), conj(eq(X, F('f', Y)), call('d1', Y))), (F('r', X, Y), conj(call('d1', X), eq(Y, X)))],
       ('r', ['any', 'any']), {('d1', 1): nf})
    sk('truefail', [(F('r', X), conj(call('d1', X), FAIL)), (F('r', X), conj(TRUE, call('d1', X))), (F('r', X), FAIL),
                    (F('r', C(7)), TRUE)],
       ('r', ['any']), {('d1', 1): nf})
    sk('atoms', [(F('c', A('a')), TRUE), (F('c', A('b')), TRUE), (F('c', A('a')), TRUE),
                 (F('r', X, Y), conj(call('c', X), call('d1', Y)))],
       ('r', ['any', 'any']), {('d1', 1): nf})
    sk('headstruct', [(F('r', F('f', X, F('g', Y)), L(X, Y, tail=T)), conj(call('d2', X, Y), eq(T, NIL)))],
       ('r', ['any', 'any']), {('d2', 2): nf})
    sk('alias', [(F('r', X), conj(eq(X, Y), call('d1', Y))), (F('r', X), conj(call('same', X, Y), call('d1', Y), eq(X, C(1)))),
                 (F('same', Z, Z), TRUE)],
       ('r', ['any']), {('d1', 1): nf})
    sk('length', [(F('len', NIL, A('z')), TRUE), (F('len', L(_(1), tail=T), F('s', N)), call('len', T, N))],
       ('len', [('fixed', L(('sym', 0), V('Q1'))), 'any']), {})
    return S


def units(tier, seed):
    nf = 2 if tier == 'quick' else 3
    us = []
    for sk in skeletons(nf):
        anyk = [k for k, kind in enumerate(sk['query'][1]) if kind == 'any']
        # modes stay symbolic inside a unit; thorough partitions on the first argument's mode
        parts = [{}]
        if anyk and tier != 'quick':
            parts = [{'m%d' % anyk[0]: m} for m in range(NMODES)]
        for fx in parts:
            tag = ''.join('%s%d' % kv for kv in sorted(fx.items()))
            us.append(dict(id='a.%s.%s' % (sk['name'], tag or 'all'), skeleton=sk['name'], nf=nf, fixed=fx, ob='C01.a',
                           timeout=400 if tier == 'quick' else 1200, weight=100,
                           cap=12 if tier == 'quick' else 16,
                           bounds='skeleton %s, <=%d facts per dynamic predicate, modes fixed: %r' % (sk['name'], nf, fx)))
    return us


def build(u):
    sk = [s for s in skeletons(u['nf']) if s['name'] == u['skeleton']][0]
    return build_sld_unit(u, sk)
