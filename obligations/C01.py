"""C01 - compiled clauses compute exactly Prolog's answers, in order.

Ob C01.a: skeleton family F01 (listed below; each skeleton exercises one of the anchor
mechanisms) x symbolic dynamic facts (count and all integer arguments) x symbolic query
binding pattern (fresh variable / alias of an earlier variable / integer constant / f(V) /
[V|W] / [c,V]) vs the independent SLD interpreter vlib.refprolog."""
from vlib import ch
from vlib.sld import (V, A, C, F, L, NIL, call, conj, eq, neq, TRUE, FAIL, build_sld_unit, NMODES)
from vlib import ch

PROPERTY = 'C01'
FUNCTIONS = ['generated clause functions of every skeleton (compiled by the current compiler at run time)',
             'engine.YP.query', 'engine.YP.match_dynamic', 'engine.YP._match_all_clauses', 'engine.Answer.match',
             'engine._rename_variables', 'engine.unify', 'engine.unify_arrays', 'engine.Variable.unify',
             'engine.Atom.unify', 'engine.Functor.unify', 'engine.get_value', 'engine.YP.assert_fact',
             'engine.builtin_eq', 'engine.YP.builtin_neq']
STUBS = ['ANTLR front end + compiler run natively on the text printed from the reference AST of each skeleton']
ASSUMPTIONS = ['answers are compared up to 12 (quick) answers; an implementation producing more than the reference, or raising, is a violation',
               'paths on which the reference needs a cyclic term or exceeds its step limit are counted trivial']
OUTSIDE = ['programs outside the listed skeleton family', 'more facts / longer lists than stated', 'searches beyond the answer cap']
BOUNDS = {'quick': '14 skeletons; <=2 facts per dynamic predicate with unbounded symbolic integer arguments; every query argument in 6 symbolic modes; answer cap 12',
          'thorough': 'same skeletons with <=3 facts per dynamic predicate, answer cap 16'}
EXPLANATION = ('CrossHair executes YP.query over the generated Python of each skeleton with the dynamic fact base and the query '
               'arguments symbolic; on every path the canonically renamed answer sequence (captures aliasing, order, multiplicity) '
               'must equal the reference SLD interpreter\'s; CONFIRMED = path tree exhausted')

_ = lambda k: V('_anon%d' % k)
X, Y, Z, T, H, N, R, W = [V(n) for n in 'XYZTHNRW']


def skeletons(nf):
    S = []

    def sk(name, clauses, query, facts, **kw):
        S.append(dict(name=name, clauses=clauses, query=query, facts=facts, **kw))
    sk('join', [(F('r', X, Y), conj(call('d2', X, Z), call('d2', Z, Y)))],
       ('r', ['any', 'any']), {('d2', 2): nf})
    sk('rephead', [(F('r', X, X), call('d1', X)), (F('r', X, Y), call('d2', X, Y))],
       ('r', ['any', 'any']), {('d1', 1): nf, ('d2', 2): 1})
    sk('nestedrep', [(F('r', X, F('f', X, Y)), conj(call('d1', X), call('d1', Y)))],
       ('r', ['any', 'any']), {('d1', 1): nf})
    sk('arity0', [(A('r0'), conj(call('d1', X), call('d1', X))), (F('r', Y), conj(call('r0'), call('d1', Y)))],
       ('r', ['any']), {('d1', 1): nf})
    sk('anon', [(F('r', X), conj(call('d2', X, _(1)), call('d2', _(2), X)))],
       ('r', ['any']), {('d2', 2): nf})
    sk('member', [(F('mem', X, L(X, tail=_(1))), TRUE), (F('mem', X, L(_(2), tail=T)), call('mem', X, T))],
       ('mem', ['any', ('fixed', L(('sym', 0), V('Q1'), ('sym', 1)))]), {})
    sk('append', [(F('app', NIL, Y, Y), TRUE), (F('app', L(H, tail=T), Y, L(H, tail=R)), call('app', T, Y, R))],
       ('app', ['any', 'any', ('fixed', L(('sym', 0), ('sym', 1)))]), {})
    sk('path', [(F('path', X, Y), call('d2', X, Y)), (F('path', X, Y), conj(call('d2', X, Z), call('path', Z, Y)))],
       ('path', ['any', 'any']), {('d2', 2): nf}, max_steps=60)
    sk('neq', [(F('r', X, Y), conj(call('d1', X), call('d1', Y), neq(X, Y)))],
       ('r', ['any', 'any']), {('d1', 1): nf})
    sk('eqstruct', [(F('r', X, Y), conj(eq(X, F('f', Y)), call('d1', Y))), (F('r', X, Y), conj(call('d1', X), eq(Y, X)))],
       ('r', ['any', 'any']), {('d1', 1): nf})
    sk('truefail', [(F('r', X), conj(call('d1', X), FAIL)), (F('r', X), conj(TRUE, call('d1', X))), (F('r', X), FAIL),
                    (F('r', C(7)), TRUE)],
       ('r', ['any']), {('d1', 1): nf})
    sk('atoms', [(F('c', A('a')), TRUE), (F('c', A('b')), TRUE), (F('c', A('a')), TRUE),
                 (F('r', X, Y), conj(call('c', X), call('d1', Y)))],
       ('r', ['any', 'any']), {('d1', 1): nf})
    sk('headstruct', [(F('r', F('f', X, F('g', Y)), L(X, Y, tail=T)), conj(call('d2', X, Y), eq(T, NIL)))],
       ('r', ['any', 'any']), {('d2', 2): nf})
    sk('allfail', [(A('never'), conj(call('d1', X), FAIL)), (F('never2', A('a')), FAIL), (F('never2', X), conj(call('d1', X), FAIL)),
                   (F('r', X), conj(call('d1', X), ('not', call('never')))), (F('r', X), call('never2', X)), (F('r', X), conj(call('never'), call('d1', X)))],
       ('r', ['any']), {('d1', 1): nf})
    sk('renamed', [(F('path', X, Y), call('d2', X, Y)), (F('path', V('A'), V('B')), conj(call('d2', V('A'), X), call('path', X, V('B'))))],
       ('path', ['any', 'any']), {('d2', 2): nf}, max_steps=60)
    sk('recdyn', [(F('r', F('f', X)), call('r', X)), (F('t', X), conj(call('r', X), call('r', F('f', X))))],
       ('t', ['any']), {('r', 1): nf}, max_steps=80)
    sk('swap', [(F('swap', X, Y), conj(eq(X, Y), eq(Y, X))), (F('swap', X, Y), conj(eq(F('f', X, Y), F('f', Y, X)), call('d1', X))),
                (F('sym', V('A'), V('B'), V('B'), V('A')), TRUE), (F('r', X, Y), conj(call('swap', X, Y), call('sym', X, Y, X, Y)))],
       ('r', ['any', 'any']), {('d1', 1): nf})
    sk('alias', [(F('r', X), conj(eq(X, Y), call('d1', Y))), (F('r', X), conj(call('same', X, Y), call('d1', Y), eq(X, C(1)))),
                 (F('same', Z, Z), TRUE)],
       ('r', ['any']), {('d1', 1): nf})
    sk('length', [(F('len', NIL, A('z')), TRUE), (F('len', L(_(1), tail=T), F('s', N)), call('len', T, N))],
       ('len', [('fixed', L(('sym', 0), V('Q1'))), 'any']), {})
    return S


# ---- C01.b: clause heads (solver-enumerated patterns), compiled per path ------------------
HEAD_PATTERNS = ['X', 'Y', '_', 'a', '1', 'f(X)', 'f(Y)', 'g(X,Y)', '[X|Y]']
HEAD_REF = [V('X'), V('Y'), None, A('a'), C(1), F('f', V('X')), F('f', V('Y')), F('g', V('X'), V('Y')), L(V('X'), tail=V('Y'))]
BODY_TEXT = ['true', 'd(X)', 'd(X), d(Y)', 'd(X), d(X)', '!, fail', 'd(Y), !']
BODY_REF = [TRUE, call('d', V('X')), conj(call('d', V('X')), call('d', V('Y'))), conj(call('d', V('X')), call('d', V('X'))),
            conj(('cut',), FAIL), conj(call('d', V('Y')), ('cut',))]


def make_body_b(quick, info):
    from crosshair.tracers import NoTracing
    from vlib.control import _compile
    from vlib.refprolog import Interp, StepLimit
    from vlib.sld import QueryBuilder, ref_answers, real_answers
    from vlib.terms import Cyclic
    np_, nb = len(HEAD_PATTERNS), len(BODY_TEXT)
    spec = [('p0', 'int', '0 <= p0 <= %d' % (np_ - 1)), ('p1', 'int', '0 <= p1 <= %d' % (np_ - 1)), ('b', 'int', '0 <= b <= %d' % (nb - 1)),
            ('nd', 'int', '0 <= nd <= 2'), ('d0', 'int', None), ('d1', 'int', None),
            ('m0', 'int', '0 <= m0 <= 5'), ('a0', 'int', None), ('m1', 'int', '0 <= m1 <= 5'), ('a1', 'int', None)]
    ix = ch.index_of(spec)
    cache = {}

    def body(vals):
        ch.install_registry(False)
        g = lambda k: vals[ix[k]]
        i0 = i1 = ib = 0
        for k in range(np_):
            if g('p0') == k:
                i0 = k
            if g('p1') == k:
                i1 = k
        for k in range(nb):
            if g('b') == k:
                ib = k
        with NoTracing():
            key = (i0, i1, ib)
            if key not in cache:
                src = 'r(%s, %s) :- %s.\nr(A, B) :- d(A), B = A.\n' % (HEAD_PATTERNS[i0], HEAD_PATTERNS[i1], BODY_TEXT[ib])
                try:
                    code = _compile(src)
                    compile(code, 'gen', 'exec')
                except Exception as e:
                    cache[key] = (src, None, '%s: %s' % (type(e).__name__, e))
                else:
                    cache[key] = (src, code, None)
            src, code, err = cache[key]
        if code is None:
            ch.note(info, 'compiler failed on %r: %s', src, err)
            return ch.VIOLATED
        anon = [0]

        def ref(i):
            if HEAD_REF[i] is None:
                anon[0] += 1
                return V('_anon%d' % anon[0])
            return HEAD_REF[i]
        clauses = [(F('r', ref(i0), ref(i1)), BODY_REF[ib]), (F('r', V('A'), V('B')), conj(call('d', V('A')), eq(V('B'), V('A'))))]
        yp = ch.new_engine()
        ch.load(yp, code)
        interp = Interp(clauses, max_steps=400)
        for i in range(2):
            if i < g('nd'):
                yp.assert_fact(yp.atom('d'), [g('d%d' % i)])
                interp.assert_fact('d', (('c', g('d%d' % i)),), {})
        qb = QueryBuilder(yp, interp)
        a0, r0 = qb.any(g('m0'), g('a0'))
        a1, r1 = qb.any(g('m1'), g('a1'))
        try:
            exp = ref_answers(interp, 'r', [r0, r1], 10)
        except (Cyclic, StepLimit, RecursionError):
            return ch.HOLDS_TRIVIAL
        try:
            got = real_answers(yp, 'r', [a0, a1], 10)
        except Exception as e:
            ch.note(info, 'query on %r raised %s: %s', src, type(e).__name__, str(e)[:120])
            return ch.VIOLATED
        if got != exp:
            ch.note(info, 'program %r: answers %r differ from SLD reference %r', src, got, exp)
            return ch.VIOLATED
        return ch.HOLDS_NONTRIVIAL if exp else ch.HOLDS_TRIVIAL
    extra = ['m0 <= 2', 'm1 <= 2'] if quick else []
    return spec, body, extra


def units(tier, seed):
    nf = 2 if tier == 'quick' else 3
    us = []
    for p0 in range(len(HEAD_PATTERNS)):
        bodies = [None] if tier == 'quick' else list(range(len(BODY_TEXT)))
        for b in bodies:
            fx = {'p0': p0} if b is None else {'p0': p0, 'b': b}
            us.append(dict(id='b.heads.p0=%s%s' % (HEAD_PATTERNS[p0], '' if b is None else '.body%d' % b), kind='b', fixed=fx, quick=(tier == 'quick'),
                           ob='C01.b', timeout=400 if tier == 'quick' else 500, weight=150,
                           bounds='r(%s, P1) :- BODY.  P1 from %d patterns, BODY from %d bodies; second clause catch-all; <=2 symbolic facts; query modes %s'
                                  % (HEAD_PATTERNS[p0], len(HEAD_PATTERNS), len(BODY_TEXT), '0..2' if tier == 'quick' else '0..5')))
    for sk in skeletons(nf):
        anyk = [k for k, kind in enumerate(sk['query'][1]) if kind == 'any']
        # modes stay symbolic inside a unit; thorough partitions on the first argument's mode
        parts = [{}]
        if anyk and (tier != 'quick' or sk['name'] in ('path', 'renamed')):
            parts = [{'m%d' % anyk[0]: m} for m in range(3 if (tier == 'quick' or sk['name'] in ('path', 'renamed')) else NMODES)]
        for fx in parts:
            tag = ''.join('%s%d' % kv for kv in sorted(fx.items()))
            us.append(dict(id='a.%s.%s' % (sk['name'], tag or 'all'), skeleton=sk['name'], nf=nf, fixed=fx, ob='C01.a',
                           timeout=400 if tier == 'quick' else 500, weight=100,
                           cap=12 if tier == 'quick' else 16,
                           bounds='skeleton %s, <=%d facts per dynamic predicate, modes fixed: %r' % (sk['name'], nf, fx)))
    return us


def build(u):
    if u.get('kind') == 'b':
        info = {}
        spec, body, extra = make_body_b(u.get('quick', False), info)
        if u.get('quick'):
            extra = extra + ['p1 <= 3', 'b != 3', 'b != 2']
        return ch.harness_from_spec(u['id'], spec, u['fixed'], body, extra_pre=extra, info=info)
    sk = [s for s in skeletons(u['nf']) if s['name'] == u['skeleton']][0]
    return build_sld_unit(u, sk)
