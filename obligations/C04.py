"""C04 - engine instances are isolated; interleaved queries do not interfere.

Ob C04.a (one-step non-interference): two engines A and B are brought into small states
chosen by symbolic codes through the public API (a script of a pool loaded or not, a p/1
fact with a symbolic value or not, a registered Python predicate or not, an atom created).
B additionally has a query on p/1 suspended after a symbolic number of answers.  Then ONE
symbolic operation runs on A (load with symbolic overwrite, assert, retract, retractall,
register_function, clear, atom creation, start+step+abandon a query).  B's battery of
queries must be what it was before, the continuation of B's suspended query must be the
rest of the answers it had when it started, and B's atoms keep their identity.
Ob C04.b (generator interleavings): two or three queries (same engine or different
engines, disjoint variables) are stepped according to a symbolic schedule word; each
produces exactly the answers it produces when run alone, and the answer a suspended generator
is holding is re-read after every step of another generator and must not have changed
(goal nv/1 leaves its variable aliased to the renamed variable of a non-ground stored fact).
Ob C04.c (heap disjointness, monitored on every explored path of a and b): the mutable
objects reachable from the two engine instances are disjoint and no module-/class-level container
of yldprolog.engine changes while the engines are used - the sufficient condition for the thread part of the
statement (pre-emptive thread schedules themselves are outside the solver's reach).
"""
import types

from crosshair.tracers import NoTracing

from vlib import ch
from vlib.control import _compile
import yldprolog.engine as engine
from yldprolog.engine import YP, unify, to_python

PROPERTY = 'C04'
FUNCTIONS = ['engine.YP.__init__', 'engine.YP.clear', 'engine.YP._set_default_eval_context', 'engine.YP._set_builtin_predicates',
             'engine.YP.load_script_from_string', 'engine.YP.register_function', 'engine.YP.assert_fact', 'engine.YP.retract',
             'engine.YP.retractall', 'engine.YP.atom', 'engine.YP.query', 'engine.YP.match_dynamic',
             'generated code of the pool scripts (doBreak/cutIfN flags are frame-local)']
STUBS = ['scripts compiled natively with the current compiler']
ASSUMPTIONS = ['C04.c walks dict/list/set/tuple contents, instance __dict__s, bound-method receivers, closure cells and the globals '
               'dict a script was loaded into; module globals of yldprolog.engine are checked separately for mutable containers']
OUTSIDE = ['pre-emptive OS-thread schedules (only the sufficient condition C04.c is established)',
           'evaluate_bounded\'s interpreter-wide recursion limit (excluded by the statement)', 'histories longer than one step per engine state']
BOUNDS = {'quick': '2 engines, state recipes 3x2x2 each, 9 operation kinds on A, B\'s query suspended after 0..2 answers; schedules of <=6 steps over 2 generators',
          'thorough': 'schedules of <=9 steps over 2 generators (all goal pairs) and <=7 steps over 3 generators (6 goal triples)'}
EXPLANATION = ('CrossHair executes an arbitrary operation on one engine while another engine (in an arbitrary small state, with a suspended '
               'query) is observed; and symbolic schedules of next() over several suspended queries; on every path the observed engine '
               'behaves as when alone and the two object graphs are disjoint; CONFIRMED = path tree exhausted')

POOL = ["p(1).\np(2) :- !.\np(3).\nt(X) :- (p(X) -> true ; X = 0).\nn1(5) :- nd(f(5)).\nn2(6) :- nd(f(6)).\nnv(X) :- nd(f(X)).\n",
        "p(10).\nq(X) :- p(X), \\+ X = 10.\nq(99).\nt(X) :- q(X).\nn1(5) :- nd(f(5)).\nn2(6) :- nd(f(6)).\nnv(X) :- nd(f(X)).\n"]
BATTERY = [('p', 1), ('q', 1), ('t', 1), ('u', 1)]
OPS = ['load', 'assert', 'retract', 'retractall', 'register', 'clear', 'atom', 'query', 'assert_other']


def battery(yp):
    out = []
    for name, arity in BATTERY:
        vs = [yp.variable() for _ in range(arity)]
        rows = []
        for _ in yp.query(name, vs):
            rows.append(tuple([to_python(v) for v in vs]))
            if len(rows) > 12:
                break
        out.append(rows)
    # meta-call with an atom goal and an extra argument, then an atom goal alone
    v = yp.variable()
    rows = []
    for _ in yp.query('call', [yp.atom('p'), v]):
        rows.append((to_python(v),))
        if len(rows) > 12:
            break
    out.append(rows)
    n = 0
    for _ in yp.query('once', [yp.atom('zero_arity_probe')]):
        n += 1
    out.append(n)
    return out


def _reachable(root):
    """ids of mutable objects reachable from an engine instance"""
    seen = {}
    stack = [root]
    while stack:
        o = stack.pop()
        if id(o) in seen:
            continue
        if isinstance(o, (int, float, str, bytes, bool, type(None), types.CodeType, types.ModuleType, type)):
            continue
        if type(o).__module__.startswith('crosshair'):
            continue            # symbolic stand-ins for immutable values (ints, strs) while under CrossHair
        if isinstance(o, types.FunctionType):
            if o.__module__ in ('yldprolog.engine', 'itertools', 'functools'):
                # module-level functions are shared code; their closures are what can hold state
                if o.__closure__:
                    seen[id(o)] = o
                    for c in o.__closure__:
                        try:
                            stack.append(c.cell_contents)
                        except ValueError:
                            pass
                continue
            seen[id(o)] = o
            if o.__closure__:
                for c in o.__closure__:
                    try:
                        stack.append(c.cell_contents)
                    except ValueError:
                        pass
            if o.__globals__.get('__name__') is None:      # globals dict of a loaded script
                stack.append(o.__globals__)
            continue
        if isinstance(o, types.MethodType):
            stack.append(o.__self__)
            continue
        if isinstance(o, types.BuiltinFunctionType):
            continue
        seen[id(o)] = o
        if isinstance(o, dict):
            stack.extend(o.values())
        elif isinstance(o, (list, tuple, set, frozenset)):
            stack.extend(o)
        elif hasattr(o, '__dict__'):
            stack.extend(vars(o).values())
    return seen


def heap_disjoint(a, b, info, before=None):
    with NoTracing():
        ra, rb = _reachable(a), _reachable(b)
        common = [o for k, o in ra.items() if k in rb and not (isinstance(o, (tuple, frozenset)) and not o)]
        common = [o for o in common if o is not True and o is not False]
        if common:
            info['reason'] = 'objects shared between two engine instances: %r' % ([type(o).__name__ for o in common][:5],)
            return False
        now = shared_containers()
        if before is not None and now != before:
            changed = [k for k in now if now.get(k) != before.get(k)]
            info['reason'] = 'module-/class-level container changed while the engines were used: %r' % (changed[:3],)
            return False
    return True


def shared_containers():
    """repr of every module-level and class-level dict/list/set of yldprolog.engine: constant tables are fine, but nothing an
    engine does may change them (that would be state shared by all instances)"""
    with NoTracing():
        out = {}
        for name, val in vars(engine).items():
            if name.startswith('__') or name in ('_verif_variables', 'logger'):
                continue
            if isinstance(val, (dict, list, set)):
                out['engine.' + name] = repr(val)
            if isinstance(val, type):
                for n2, v2 in vars(val).items():
                    if isinstance(v2, (dict, list, set)):
                        out['%s.%s' % (name, n2)] = repr(v2)
        return out


def make_body_a(info):
    codes = [_compile(s) for s in POOL]
    spec = []
    for e in 'AB':
        spec += [('s%s' % e, 'int', '0 <= s%s <= 2' % e), ('f%s' % e, 'bool', None), ('v%s' % e, 'int', None), ('r%s' % e, 'bool', None)]
    spec += [('kB', 'int', '0 <= kB <= 2'), ('op', 'int', '0 <= op <= %d' % (len(OPS) - 1)), ('ow', 'bool', None),
             ('si', 'int', '0 <= si <= 1'), ('c', 'int', None), ('kA', 'int', '0 <= kA <= 2')]
    ix = ch.index_of(spec)

    def body(vals):
        ch.install_registry(False)
        g = lambda k: vals[ix[k]]

        def prepare(e):
            def pyu(a):             # one function object per engine: the harness itself must not share anything
                for _ in unify(a, 77):
                    yield False
            yp = ch.new_engine()
            s = g('s' + e)
            if s == 1:
                ch.load(yp, codes[0])
            elif s == 2:
                ch.load(yp, codes[1])
            if g('f' + e):
                yp.assert_fact(yp.atom('p'), [g('v' + e)])
            if g('r' + e):
                yp.register_function('u', pyu)
            return yp
        shared0 = shared_containers()
        try:
            A, B = prepare('A'), prepare('B')
            atomB = B.atom('shared_name')
            before = battery(B)
            Xb = B.variable()
            qB = B.query('p', [Xb])
            seen = []
            kB = g('kB')
            while len(seen) < kB:
                try:
                    next(qB)
                except StopIteration:
                    break
                seen.append((to_python(Xb),))
            # one operation on A
            op = g('op')
            opname = OPS[0]
            for j in range(len(OPS)):
                if op == j:
                    opname = OPS[j]
            c = g('c')
            if opname == 'load':
                A.load_script_from_string(codes[1] if g('si') == 1 else codes[0], overwrite=g('ow'))
            elif opname == 'assert':
                A.assert_fact(A.atom('p'), [c])
            elif opname == 'assert_other':
                for _ in A.query('asserta', [A.functor('q', [c])]):
                    pass
            elif opname == 'retract':
                for _ in A.query('retract', [A.functor('p', [A.variable()])]):
                    pass
            elif opname == 'retractall':
                for _ in A.query('retractall', [A.functor('p', [c])]):
                    pass
            elif opname == 'register':
                def other(a):
                    for _ in unify(a, c):
                        yield False
                A.register_function('p', other)
                A.register_function('u', other)
            elif opname == 'clear':
                A.clear()
            elif opname == 'atom':
                if A.atom('shared_name') is atomB:
                    ch.note(info, 'two engines share an atom object')
                    return ch.VIOLATED
            else:
                Xa = A.variable()
                qA = A.query('t', [Xa])
                n = 0
                while n < g('kA'):
                    try:
                        next(qA)
                    except StopIteration:
                        break
                    n += 1
                qA.close()
            # B afterwards
            rest = []
            for _ in qB:
                rest.append((to_python(Xb),))
                if len(rest) > 12:
                    break
            after = battery(B)
        except Exception as e:
            ch.note(info, 'raised %s: %s', type(e).__name__, str(e)[:150])
            return ch.VIOLATED
        if after != before:
            ch.note(info, 'battery of B changed after %s on A: %r -> %r', opname, before, after)
            return ch.VIOLATED
        if seen + rest != before[0]:
            ch.note(info, 'B\'s suspended query continued with %r after %r; alone it gives %r', rest, seen, before[0])
            return ch.VIOLATED
        if B.atom('shared_name') is not atomB:
            ch.note(info, 'B\'s atom lost its identity')
            return ch.VIOLATED
        if not heap_disjoint(A, B, info, shared0):
            return ch.VIOLATED
        return ch.HOLDS_NONTRIVIAL if before[0] else ch.HOLDS_TRIVIAL
    return spec, body


def make_body_b(ngen, nsteps, info):
    codes = [_compile(s) for s in POOL]
    spec = [('same', 'bool', None), ('fa', 'bool', None), ('va', 'int', None)]
    spec += [('g%d' % i, 'int', '0 <= g%d <= 6' % i) for i in range(ngen)]       # which goal each generator runs
    spec += [('w%d' % i, 'int', '0 <= w%d <= %d' % (i, ngen - 1)) for i in range(nsteps)]
    ix = ch.index_of(spec)
    GOALS = [('p', 1), ('t', 1), ('q', 1), ('u', 1), ('n1', 1), ('n2', 1), ('nv', 1)]     # n1/n2/nv use the non-ground dynamic fact nd(f(_)); nv leaves its variable aliased to the fact's

    def body(vals):
        ch.install_registry(False)
        g = lambda k: vals[ix[k]]

        def prepare(i):
            def pyu(a):
                for r in (5, 6):
                    for _ in unify(a, r):
                        yield False
            yp = ch.new_engine()
            ch.load(yp, codes[i])
            yp.register_function('u', pyu)
            if g('fa'):
                yp.assert_fact(yp.atom('p'), [g('va')])
            yp.assert_fact(yp.atom('nd'), [yp.functor('f', [yp.variable()])])
            return yp
        shared0 = shared_containers()
        try:
            E0 = prepare(0)
            E1 = E0 if g('same') else prepare(1)
            engines = [E0, E1, E0][:ngen]
            gens, alone, got, xs = [], [], [], []
            for i in range(ngen):
                gi = g('g%d' % i)
                name = GOALS[0][0]
                for j in range(len(GOALS)):
                    if gi == j:
                        name = GOALS[j][0]
                yp = engines[i]
                x = yp.variable()
                rows = []
                for _ in yp.query(name, [x]):
                    rows.append(to_python(x))
                alone.append(rows)
                xs.append(x)
                gens.append(yp.query(name, [x]))
                got.append([])
            done = [False] * ngen
            cur = [None] * ngen           # the answer each suspended generator is holding
            held = [False] * ngen
            for sidx in range(nsteps):
                w = g('w%d' % sidx)
                which = 0
                for j in range(ngen):
                    if w == j:
                        which = j
                if done[which]:
                    continue
                try:
                    next(gens[which])
                    got[which].append(to_python(xs[which]))
                    cur[which] = got[which][-1]
                    held[which] = True
                except StopIteration:
                    done[which] = True
                    held[which] = False
                # the answers held by the OTHER suspended generators are untouched by this step
                for j in range(ngen):
                    if j != which and held[j] and to_python(xs[j]) != cur[j]:
                        ch.note(info, 'the answer held by suspended generator %d changed from %r to %r when generator %d was stepped',
                                j, cur[j], to_python(xs[j]), which)
                        return ch.VIOLATED
            for i in range(ngen):
                if not done[i]:
                    for _ in gens[i]:
                        got[i].append(to_python(xs[i]))
        except Exception as e:
            ch.note(info, 'raised %s: %s', type(e).__name__, str(e)[:150])
            return ch.VIOLATED
        if got != alone:
            ch.note(info, 'interleaved answers %r differ from the answers of each query alone %r', got, alone)
            return ch.VIOLATED
        for x in xs:
            if x._is_bound:
                ch.note(info, 'variable still bound')
                return ch.VIOLATED
        if E1 is not E0 and not heap_disjoint(E0, E1, info, shared0):
            return ch.VIOLATED
        if E1 is E0 and shared_containers() != shared0:
            ch.note(info, 'module-/class-level container changed while queries ran')
            return ch.VIOLATED
        return ch.HOLDS_NONTRIVIAL if any(alone) else ch.HOLDS_TRIVIAL
    return spec, body


def units(tier, seed):
    us = []
    for op in range(len(OPS)):
        for sB in range(3):
            heavy = OPS[op] in ('load', 'query', 'retractall', 'clear') and sB == 2
            for fxa in ([{'sA': a} for a in range(3)] if heavy else [{}]):
                tag = ''.join('.A-script%d' % v for v in fxa.values())
                us.append(dict(id='a.%s.B-script%d%s' % (OPS[op], sB, tag), kind='a', fixed=dict({'op': op, 'sB': sB}, **fxa), ob='C04.a',
                               timeout=300 if tier == 'quick' else 1200, weight=60,
                               bounds='operation %s on A; B has script %d; %r; all other state codes symbolic' % (OPS[op], sB, fxa)))
    ngen, nsteps = (2, 6) if tier == 'quick' else (2, 9)
    for g0 in range(7):
        for g1 in range(7):
            if tier == 'quick' and (g1 < g0 or (g0 < 4 and g1 >= 4 and g0 != 0)):
                continue
            us.append(dict(id='b.sched.g%d-g%d' % (g0, g1), kind='b', ngen=ngen, nsteps=nsteps, fixed={'g0': g0, 'g1': g1}, ob='C04.b',
                           timeout=300 if tier == 'quick' else 2400, weight=60,
                           bounds='%d generators, schedule of %d steps, goals %d/%d of p t q u n1 n2 nv' % (ngen, nsteps, g0, g1)))
    if tier != 'quick':
        for g0, g1, g2 in ((0, 1, 0), (1, 1, 2), (0, 4, 5), (4, 5, 4), (3, 0, 1), (2, 2, 2)):
            us.append(dict(id='b.sched3.g%d-g%d-g%d' % (g0, g1, g2), kind='b', ngen=3, nsteps=7, fixed={'g0': g0, 'g1': g1, 'g2': g2}, ob='C04.b',
                           timeout=2400, weight=400, bounds='3 generators, schedule of 7 steps, goals %d/%d/%d' % (g0, g1, g2)))
    return us


def build(u):
    info = {}
    if u['kind'] == 'a':
        spec, body = make_body_a(info)
    else:
        spec, body = make_body_b(u['ngen'], u['nsteps'], info)
    return ch.harness_from_spec(u['id'], spec, u['fixed'], body, info=info)
