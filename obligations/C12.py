"""C12 - Prolog text cannot become Python code; loaded code sees only the engine API.

Ob C12.a (CrossHair, slot discipline): clause ASTs (built from the yp_prolog_visitor classes,
  body shape chosen by a code so that every rewrite case of compile_body is reached) whose
  goal name, atom text and functor name are SYMBOLIC strings go through
  YPPrologCompiler.compile_program; in the resulting YPCode tree every source-derived string
  must sit in a quoting slot (YPCodeExpr).  Any unquoted slot - variable names, called
  function names, function names/arguments, block labels, raw values - that holds a value
  derived from the symbolic text is a violation (under CrossHair: the value is a symbolic
  object; on native replay: it equals one of the source strings).
Ob C12.b (solver-enumerated over the alphabet S_py of class representatives): the quoting slot
  - generate_expr - emits a Python string literal that ast.literal_eval decodes back to
  exactly the payload, for payloads of length <=2 over S_py, embedded in call/list contexts.
Ob C12.c (direct SMT, shared with C08.b): no callable name's key is an engine API entry.
Ob C12.d (native validation, not a solver verdict): hostile atoms (quotes, newlines, Python
  syntax, dunder names) in every syntactic position; every accepted program's output is
  parsed with `ast` and checked against a whitelist of node types and callable names;
  loading adds only name_arity keys; hostile queries reach nothing; __builtins__ is empty.
"""
import ast

from crosshair.tracers import NoTracing, is_tracing

from vlib import ch, lexstub
from vlib.control import Ctx
from obligations.C08 import KeyQueries
import yldprolog.compiler as compiler
import yldprolog.yp_generator as gen
import yldprolog.yp_prolog_visitor as vis

PROPERTY = 'C12'
FUNCTIONS = ['yp_generator.YPPrologCompiler.compile_program', 'compile_function_body', 'compile_body (all rewrite cases)', 'compile_predicate',
             'compile_expression', 'compile_list', 'compile_unification', 'yp_generator.YPPythonCodeGenerator.generate_expr',
             'generate_call', 'generate_list', 'engine key expressions (SMT)', 'compiler.compile_prolog_from_string (C12.d, natively)']
STUBS = ['ASTs are built directly from the yp_prolog_visitor node classes (the parser is not involved in C12.a)']
ASSUMPTIONS = ['a value derived from symbolic input is a CrossHair proxy object unless the code realised it; realising code paths (repr, format) only occur in quoting slots']
OUTSIDE = ['hostile COMPILED Python handed to load_script_* (not Prolog text)', 'payloads longer than 2 characters for the repr route']
BOUNDS = {'quick': 'a: symbolic goal name (<=8 characters) / atom text / functor name (<=4 characters), 8 body shapes; b: payloads of length <=2 over 20 class representatives; d: 14 hostile strings x 6 positions',
          'thorough': 'a: <=6 characters'}
EXPLANATION = ('CrossHair executes the compiler on clause ASTs with symbolic names and inspects where they end up in the code tree; the emitters of '
               'the quoting slot are checked against CPython\'s own literal decoder over a finite alphabet of class representatives; the run-time '
               'reachability of API entries is an SMT query over the engine\'s key expressions')

SIGMA = ['a', 'A', '0', '_', ' ', "'", '"', '\\', '\n', '\r', '\t', '\0', '\x7f', 'é', '\x85', '五', ' ', '﻿', '\U0001F600', ')']
ALLOWED_CALLS = ('query', 'unify', 'atom', 'functor', 'listpair', 'makelist', 'variable')


def build_clause(shape, g, a, f):
    """h(X) :- BODY  with the symbolic strings in goal-name, atom and functor-name positions"""
    A, F, P, Vt = vis.Atom, vis.Functor, vis.Predicate, vis.VariableTerm
    goal = P(F(A(g), [A(a), F(A(f), [Vt('X'), vis.ListTerm([A(a), vis.NumeralTerm('1')])]), vis.ListPairTerm(A(a), Vt('Y'))]))
    g2 = P(F(A(g), []))
    other = P(F(A('r'), [Vt('X')]))
    bodies = [
        goal,
        vis.ConjunctionPredicate(goal, g2),
        vis.DisjunctionPredicate(vis.IfThenPredicate(goal, other), g2),
        vis.ConjunctionPredicate(vis.NegationPredicate(goal), other),
        vis.ConjunctionPredicate(vis.DisjunctionPredicate(goal, other), g2),
        vis.ConjunctionPredicate(vis.IfThenPredicate(g2, goal), other),
        vis.ConjunctionPredicate(vis.CutPredicate(), goal),
        vis.ConjunctionPredicate(vis.DisjunctionPredicate(vis.IfThenPredicate(other, goal), g2), goal),
    ]
    head = P(F(A('h'), [Vt('X'), A(a)]))
    return vis.Clause(head, bodies[shape])


def unquoted_slots(node, out):
    """(slot kind, value) of every place of the code tree that is emitted without quoting"""
    if isinstance(node, (list, tuple)):
        for x in node:
            unquoted_slots(x, out)
        return
    if hasattr(node, '__next__') or hasattr(node, '__iter__') and not isinstance(node, str):
        for x in list(node):
            unquoted_slots(x, out)
        return
    T = gen
    if isinstance(node, T.YPCodeProgram):
        unquoted_slots(node.functions, out)
    elif isinstance(node, T.YPCodeFunction):
        out.append(('function name', node.name))
        for a in node.args:
            out.append(('function argument', a))
        node.body = list(node.body)
        unquoted_slots(node.body, out)
    elif isinstance(node, T.YPCodeVar):
        out.append(('variable name', node.name))
    elif isinstance(node, T.YPCodeValue):
        out.append(('raw value', node.val))
    elif isinstance(node, T.YPCodeCall):
        out.append(('called function', node.func))
        unquoted_slots(node.args, out)
    elif isinstance(node, T.YPCodeList):
        unquoted_slots(node.l, out)
    elif isinstance(node, T.YPCodeAssign):
        unquoted_slots(node.lhs, out)
        if isinstance(node.rhs, str):
            out.append(('assigned expression', node.rhs))
        else:
            unquoted_slots(node.rhs, out)
    elif isinstance(node, T.YPCodeForeach):
        unquoted_slots(node.loop_expression, out)
        unquoted_slots(node.loop_code, out)
    elif isinstance(node, T.YPCodeIf):
        unquoted_slots(node.true_code, out)
        unquoted_slots(node.false_code, out)
    elif isinstance(node, T.YPCodeBreakableBlock):
        out.append(('block label', node.label))
        unquoted_slots(node.body, out)
    elif isinstance(node, T.YPCodeBreakBlock):
        out.append(('block label', node.label))
    elif isinstance(node, T.YPCodeExpr):
        pass                                  # the quoting slot
    elif isinstance(node, (T.YPCodeYieldFalse, T.YPCodeYieldTrue, T.YPCodeYieldBreak)):
        pass
    elif isinstance(node, vis.VariableTerm):
        out.append(('variable name', node.varname))
    elif isinstance(node, str):
        out.append(('bare string', node))
    elif node is None:
        pass
    else:
        out.append(('unknown node %s' % type(node).__name__, None))


def make_body_a(maxlen, info):
    spec = [('shape', 'int', '0 <= shape <= 7'), ('g', 'str', '1 <= len(g) <= %d' % (maxlen + 4)), ('a', 'str', 'len(a) <= %d' % maxlen),
            ('f', 'str', '1 <= len(f) <= %d' % maxlen)]

    def body(vals):
        shape, g, a, f = vals
        sh = 0
        for k in range(8):
            if shape == k:
                sh = k
        clause = build_clause(sh, g, a, f)
        try:
            with lexstub.opaque_ast_formatting():
                code = gen.YPPrologCompiler(Ctx).compile_program({('h', 2): [clause]})
                code.functions = [(fn, setattr(fn, 'body', list(fn.body)))[0] for fn in code.functions]
        except Exception as e:
            ch.note(info, 'compile_program raised %s: %s', type(e).__name__, str(e)[:100])
            return ch.HOLDS_TRIVIAL
        slots = []
        with NoTracing():
            unquoted_slots(code, slots)
            symbolic = [(k, v) for k, v in slots if v is not None and type(v) is not str and not isinstance(v, vis.VariableTerm)]
            unknown = [k for k, v in slots if v is None]
        if unknown:
            ch.note(info, 'code tree contains %r', unknown[:3])
            return ch.VIOLATED
        if is_tracing():
            if symbolic:
                return ch.VIOLATED
        else:
            legit = ('h', 'X', 'Y', 'r') + ALLOWED_CALLS + ('arg1', 'arg2', 'ATOM_NIL', 'variable()', '1')
            for kind, v in slots:
                s = str(v)
                if s in (g, a, f) and s not in legit and not s.startswith('cutIf'):
                    info['reason'] = 'source text %r reaches the unquoted slot "%s" of the generated code (body shape %d)' % (s, kind, sh)
                    return ch.VIOLATED
        return ch.HOLDS_NONTRIVIAL
    return spec, body


def make_body_b(info):
    n = len(SIGMA)
    spec = [('c0', 'int', '0 <= c0 <= %d' % n), ('c1', 'int', '0 <= c1 <= %d' % n), ('ctx', 'int', '0 <= ctx <= 2')]

    def body(vals):
        s = ''
        for c in vals[:2]:
            for k in range(n):
                if c == k:
                    s += SIGMA[k]
        cx = 0
        for k in range(3):
            if vals[2] == k:
                cx = k
        with NoTracing():
            g = gen.YPPythonCodeGenerator(Ctx)
            e = gen.YPCodeExpr(s)
            node = [e, gen.YPCodeCall('atom', [e]), gen.YPCodeList([e, gen.YPCodeCall('functor', [e, gen.YPCodeList([e])])])][cx]
            try:
                text = node.generate(g)
                tree = ast.parse(text, mode='eval').body
            except Exception as ex:
                info['reason'] = 'payload %r: emitted text is not a Python expression (%s)' % (s, ex)
                return ch.VIOLATED
            consts = [x.value for x in ast.walk(tree) if isinstance(x, ast.Constant)]
            others = [x for x in ast.walk(tree) if not isinstance(x, (ast.Constant, ast.Call, ast.List, ast.Name, ast.Load, ast.expr_context))]
            if others or any(c != s for c in consts) or not consts:
                info['reason'] = 'payload %r is emitted as %r which does not decode back to it' % (s, text)
                return ch.VIOLATED
        return ch.HOLDS_NONTRIVIAL if len(s) else ch.HOLDS_TRIVIAL
    return spec, body


HOSTILE = ["x'); import os; ('", "a\nimport os\nb", "__builtins__", "__import__('os').system('true')", 'a"b', "a'b", "a\\", "\0", "é 五", "a\rb",
           "query", "atom", "ATOM_NIL", "lambda: 0", "yield", "f(", "x_0():\n  pass\ndef y"]
POSITIONS = ["p('%s').", "p(f('%s', X)) :- q(X).", "p(X) :- '%s'(X).", "p(X) :- q('%s'(X), ['%s'|T]).", "'%s'(a).", "'%s' :- q.",
             "p :- \\+ '%s', ('%s' -> '%s'(1) ; true)."]


def quote_atom(t):
    return t.replace("'", "\\'")


class Whitelist(ast.NodeVisitor):
    OK = (ast.Module, ast.FunctionDef, ast.arguments, ast.arg, ast.For, ast.If, ast.Assign, ast.Expr, ast.Yield, ast.Return, ast.Break, ast.Pass,
          ast.Call, ast.Name, ast.Constant, ast.List, ast.Load, ast.Store,
          # control flow / boolean structure a different but equally harmless code generator might use
          ast.While, ast.Continue, ast.Try, ast.ExceptHandler, ast.BoolOp, ast.And, ast.Or, ast.UnaryOp, ast.Not, ast.Compare, ast.Is, ast.IsNot,
          ast.Eq, ast.NotEq, ast.Tuple, ast.YieldFrom, ast.AugAssign, ast.Add, ast.Sub)

    def __init__(self):
        self.problems = []

    def generic_visit(self, node):
        if not isinstance(node, self.OK):
            self.problems.append('node %s' % type(node).__name__)
        if isinstance(node, ast.Call):
            if not isinstance(node.func, ast.Name) or node.func.id not in ALLOWED_CALLS:
                self.problems.append('call of %s' % ast.dump(node.func)[:60])
        if isinstance(node, ast.Constant) and not isinstance(node.value, (str, int, bool)):
            self.problems.append('constant %r' % (node.value,))
        ast.NodeVisitor.generic_visit(self, node)


class HostileCorpus(ch.DirectUnit):
    def __init__(self):
        self.info = {}

    def check(self, src):
        from yldprolog.engine import YP
        try:
            code = compiler.compile_prolog_from_string(src, Ctx)
        except Exception:
            return None
        try:
            tree = ast.parse(code)
        except Exception as e:
            return 'accepted program gives unparsable Python: %s' % e
        w = Whitelist()
        w.visit(tree)
        if w.problems:
            return 'generated code contains %s' % w.problems[:3]
        for fn in tree.body:
            if not isinstance(fn, ast.FunctionDef):
                return 'module-level statement %s' % type(fn).__name__
            assigned = {t.id for n in ast.walk(fn) if isinstance(n, (ast.Assign, ast.For)) for t in ast.walk(n.targets[0] if isinstance(n, ast.Assign) else n.target)
                        if isinstance(t, ast.Name)}
            params = {a.arg for a in fn.args.args}
            for n in ast.walk(fn):
                if isinstance(n, ast.Name) and isinstance(n.ctx, ast.Load):
                    if n.id not in assigned | params | set(ALLOWED_CALLS) | {'ATOM_NIL', 'True', 'False'}:
                        return 'generated function reads the name %r' % n.id
            if assigned & (set(ALLOWED_CALLS) | {'ATOM_NIL', 'match_dynamic', 'True', 'False', 'None'}):
                return 'a clause variable captures %r' % (assigned & (set(ALLOWED_CALLS) | {'ATOM_NIL'}),)
        yp = YP()
        before = dict(yp.eval_context)
        try:
            yp.load_script_from_string(code)
        except Exception as e:
            return 'loading raised %s' % e
        added = set(yp.eval_context) - set(before)
        want = {f.name for f in tree.body}
        if added != want:
            return 'loading added %r, the script defines %r' % (sorted(added), sorted(want))
        if yp.eval_context.get('__builtins__') != {}:
            return '__builtins__ of the engine context is no longer empty'
        for k, v in before.items():
            if k not in want and yp.eval_context.get(k) is not v and yp.eval_context.get(k) != v:
                return 'loading replaced the context entry %r' % k
        return None

    def hostile_queries(self):
        from yldprolog.engine import YP
        yp = YP()
        fresh = YP()
        fresh.eval_context = {}
        fresh._set_default_eval_context()
        for name in list(fresh.eval_context.keys()) + ['__builtins__', 'eval', 'exec', 'open', '__import__']:
            for n in range(0, 4):
                try:
                    got = list(yp.query(name, [yp.variable() for _ in range(n)]))
                except Exception as e:
                    return 'query(%r/%d) raised %s' % (name, n, type(e).__name__)
                if got:
                    return 'query(%r/%d) has answers: an API entry is callable as a predicate' % (name, n)
        return None

    def sources(self):
        out = []
        for h in HOSTILE:
            for p in POSITIONS:
                out.append(p.replace('%s', quote_atom(h)))
        for nm in ('ATOM_NIL', 'True', 'None', 'False', '__debug__'):
            out += ["p([X|%s], X, [])." % nm, "p([_|%s]) :- %s = []." % (nm, nm), "p(f(%s), [%s, a|%s]) :- q(%s)." % (nm, nm, nm, nm),
                    "p(X) :- X = [a|%s], q(%s, [])." % (nm, nm)]
        out += ["p(ATOM_NIL, []).", "p(True, False, None) :- q(True).", "p(__debug__).", "p(X) :- Y = atom, Z = query, q(Y, Z).",
                "p(V_X, X) :- q(V_X).", "p(L1, Arg1, DoBreak, CutIf1) :- q(L1, Arg1, DoBreak, CutIf1, _)."]
        return out

    def run(self):
        srcs = self.sources()
        accepted = 0
        for s in srcs:
            why = self.check(s)
            try:
                compiler.compile_prolog_from_string(s, Ctx)
                accepted += 1
            except Exception:
                pass
            if why:
                return dict(verdict='violated', counterexample={'source': s}, message=why, state='HOSTILE',
                            replay=dict(native_result=2, info={'reason': why}))
        why = self.hostile_queries()
        if why:
            return dict(verdict='violated', counterexample={'source': '<hostile queries>'}, message=why, state='HOSTILE',
                        replay=dict(native_result=2, info={'reason': why}))
        return dict(verdict='discharged', state='VALIDATION', paths=0, nontrivial=accepted, solver_queries=len(srcs),
                    validation=dict(kind='native hostile-corpus run with AST whitelist (not a solver verdict)', programs=len(srcs), accepted=accepted),
                    sample=dict(example=srcs[1]))

    def run_native(self, args):
        why = self.hostile_queries() if args['source'] == '<hostile queries>' else self.check(args['source'])
        self.info['reason'] = why
        return 2 if why else 0


def units(tier, seed):
    us = []
    maxlen = 4 if tier == 'quick' else 6
    for sh in range(8):
        us.append(dict(id='a.slots.shape%d' % sh, kind='a', maxlen=maxlen, fixed={'shape': sh}, ob='C12.a', timeout=300 if tier == 'quick' else 1500, weight=40,
                       bounds='body shape %d; goal name, atom text, functor name symbolic, <=%d characters, full Unicode' % (sh, maxlen)))
    for cx in range(3):
        us.append(dict(id='b.quoting.ctx%d' % cx, kind='b', fixed={'ctx': cx}, ob='C12.b', timeout=300, weight=40,
                       bounds='payloads of length <=2 over %d class representatives in emission context %d' % (len(SIGMA), cx)))
    us.append(dict(id='c.keys-smt', kind='c', fixed={}, ob='C12.c', timeout=300, weight=40, bounds='SMT: API entries unreachable (z3 len<=12, cvc5 unbounded)'))
    us.append(dict(id='d.hostile-corpus', kind='d', fixed={}, ob='C12.d', timeout=300, weight=40, bounds='%d hostile strings x %d positions + 6 variable-capture programs' % (len(HOSTILE), len(POSITIONS))))
    return us


def build(u):
    info = {}
    if u['kind'] == 'c':
        return KeyQueries()
    if u['kind'] == 'd':
        return HostileCorpus()
    if u['kind'] == 'a':
        spec, body = make_body_a(u['maxlen'], info)
    else:
        spec, body = make_body_b(info)
    return ch.harness_from_spec(u['id'], spec, u['fixed'], body, info=info)
