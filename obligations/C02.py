"""C02 - unification computes a most general unifier, or fails.

Ob C02.a: two terms decoded from shape codes over a pool of 3 variables, payloads
symbolic (integer constants, two atom names, two functor names), under a stack of H
earlier unifications that are held open.  Oracle: reference unifier (vlib.terms.runify).
"""
import itertools

from vlib import ch
from vlib.terms import (Decoder, runify, resolve, show, Cyclic, CyclicBinding, slot_alphabet_sizes, LEAVES, INNER, ALL)
from yldprolog.engine import unify, get_value, Variable

PROPERTY = 'C02'
FUNCTIONS = ['engine.unify', 'engine.Atom.unify', 'engine.Variable.unify', 'engine.Functor.unify',
             'engine.unify_arrays', 'engine.get_value', 'engine.Variable.get_value',
             'engine.Functor.get_value', 'engine.YPSuccess', 'engine.YPFail']
STUBS = []
ASSUMPTIONS = ['terms are built with the Atom/Functor/Variable constructors (names stay symbolic); '
               'cases whose solution needs a cyclic term are classified by the oracle and skipped (unspecified)']
OUTSIDE = ['terms deeper than the stated depth', 'more than 3 distinct variables',
           'histories longer than stated', 'cyclic-term cases']
BOUNDS = {
    'quick': 'two terms of depth <=1 over 3 variables, 10 shape codes/node, symbolic int payloads and '
             '4 symbolic names (len<=2); history of 0 or 1 held-open unification of depth-<=1 terms',
    'thorough': 'depth <=2 on one side and <=1 on the other (both orders), history 0..2',
}
EXPLANATION = ('CrossHair executes engine.unify and its callees on terms whose constants and names are z3 '
               'variables and whose shapes are chosen by symbolic codes; every explored path compares the real '
               'outcome (number of yields, canonical form of both terms and all variables, restored state, '
               'symmetry) with a reference most-general unifier; verdict CONFIRMED = path tree exhausted')
NV = 3
SMALL = ['v0', 'v1', 'int', 'A']


def spec_for(tlevels):
    """tlevels: list of level lists, one per decoded term (history pairs first, then t1, t2)"""
    spec = []
    k = 0
    for levels in tlevels:
        for size in slot_alphabet_sizes(levels):
            spec.append(('k%d' % k, 'int', '0 <= k%d <= %d' % (k, size - 1)))
            k += 1
    nc = k
    for i in range(nc):
        spec.append(('i%d' % i, 'int', None))
    for n in ('n0', 'n1', 'f0', 'f1'):
        spec.append((n, 'str', 'len(%s) <= 2' % n))
    spec.append(('prep', 'bool', None))
    return spec, nc


def make_body(l1, l2, hist, info):
    """l1, l2: levels of the two terms; hist: list of (levels a, levels b) held-open unifications"""
    tlevels = []
    for la, lb in hist:
        tlevels += [la, lb]
    tlevels += [l1, l2]
    spec, nc = spec_for(tlevels)

    def body(vals):
        ch.install_registry(False)
        vs = [Variable() for _ in range(NV)]
        dec = Decoder(vs, vals[2 * nc:2 * nc + 4], vals[:nc], vals[nc:2 * nc])
        hterms = []
        for la, lb in hist:
            a, ra = dec.term(la)
            b, rb = dec.term(lb)
            hterms.append((a, ra, b, rb))
        t1, r1 = dec.term(l1)
        t2, r2 = dec.term(l2)
        # reference
        s = {}
        try:
            for a, ra, b, rb in hterms:
                s = runify(ra, rb, s)
                if s is None:
                    return ch.HOLDS_TRIVIAL
            s_hist = s
            s2 = runify(r1, r2, s)
        except Cyclic:
            return ch.HOLDS_TRIVIAL
        # 'prepared' unifications: the generators are created first (all variables still unbound) and started only
        # after the history bindings were made; a generator's body runs when it is started, so the outcome is the same
        prepared = None
        if hist and vals[2 * nc + 4]:
            prepared = [iter(unify(t1, t2)), iter(unify(t2, t1))]
        # real: open the history
        opened = []
        for a, ra, b, rb in hterms:
            it = iter(unify(a, b))
            try:
                next(it)
            except StopIteration:
                ch.note(info, 'history unification failed although the reference succeeds')
                return ch.VIOLATED
            opened.append(it)
        names = {}
        before = [show(v, names) for v in vs]
        outcomes = []
        try:
            return _observe(info, hist, vals, nc, prepared, t1, t2, r1, r2, vs, s2, s_hist, before, opened)
        except (RecursionError, CyclicBinding) as e:
            ch.note(info, 'the engine built a cyclic binding although the terms are finite and unifiable without one: %s', type(e).__name__)
            return ch.VIOLATED

    def _observe(info, hist, vals, nc, prepared, t1, t2, r1, r2, vs, s2, s_hist, before, opened):
        outcomes = []
        for oi, (x, y) in enumerate(((t1, t2), (t2, t1))):
            n = 0
            obs = None
            for _ in (prepared[oi] if prepared is not None else unify(x, y)):
                n += 1
                names = {}
                obs = (show(t1, names), show(t2, names), [show(v, names) for v in vs])
                names = {}
                g1 = show(get_value(t1), names)
                g2 = show(get_value(t2), names)
                names = {}
                if g1 != show(t1, names) or g2 != show(t2, names) or g1 != g2:
                    ch.note(info, 'get_value of the two sides differs at the yield: %r / %r', g1, g2)
                    return ch.VIOLATED
            names = {}
            if [show(v, names) for v in vs] != before:
                ch.note(info, 'binding state not restored after unify was exhausted')
                return ch.VIOLATED
            outcomes.append((n, obs))
        for n, obs in outcomes:
            if n > 1:
                ch.note(info, 'unify yielded %d times', n)
                return ch.VIOLATED
            if (n == 1) != (s2 is not None):
                ch.note(info, 'unify yields=%d but reference unifiable=%r', n, s2 is not None)
                return ch.VIOLATED
        if s2 is not None:
            names = {}
            exp = (resolve(r1, s2, names), resolve(r2, s2, names), [resolve(('v', i), s2, names) for i in range(NV)])
            for n, obs in outcomes:
                if obs != exp:
                    ch.note(info, 'bindings at the yield %r differ from the reference mgu %r', obs, exp)
                    return ch.VIOLATED
        for it in reversed(opened):
            it.close()
        for v in vs:
            if v._is_bound:
                ch.note(info, 'a variable is still bound after all generators were closed')
                return ch.VIOLATED
        if s2 is not None and len(s2) > len(s_hist):
            return ch.HOLDS_NONTRIVIAL
        if s2 is None and r1[0] == 'f' and r2[0] == 'f' and len(r1[2]) != len(r2[2]) and r1[1] == r2[1]:
            return ch.HOLDS_NONTRIVIAL     # same name, different arity: must fail
        return ch.HOLDS_TRIVIAL
    return spec, body


def _slot(tlevels, t, idx):
    """name of the code parameter of heap slot idx of the t-th decoded term"""
    return 'k%d' % (sum(2 ** len(l) - 1 for l in tlevels[:t]) + idx)


def units(tier, seed):
    us = []

    def add(uid, l1, l2, hist, fixed, timeout):
        us.append(dict(id=uid, l1=l1, l2=l2, hist=hist, fixed=fixed, timeout=timeout))
    if tier == 'quick':
        add('a.leaf-leaf', [LEAVES], [LEAVES], [], {}, 90)
        for i, c in enumerate(INNER):
            add('a.%s-leaf' % c, [[c], LEAVES], [LEAVES], [], {'k0': 0}, 120)
            for c2 in INNER:
                # binary/binary: children over the small alphabet v0 v1 int A
                add('a.%s-%s.small' % (c, c2), [[c], SMALL], [[c2], SMALL], [], {'k0': 0, 'k3': 0}, 200)
        # one held-open earlier unification  v0 = <inner>(small...)  then inner vs leaf / leaf vs leaf
        for c in INNER:
            add('a.h1.v0=%s.leaf-leaf' % c, [LEAVES], [LEAVES], [([['v0']], [[c], SMALL])], {'k0': 0, 'k1': 0}, 200)
        # constants of different Python types that are == (1, 1.0, True) inside compounds; zero-argument compounds vs arity 1
        MIX = ['one', 'T', 'fl', 'v0']      # 1, True, 1.0 (all ==) and a variable
        add('a.F2-F2.mixed-constants', [['F2'], MIX], [['F2'], MIX], [], {'k0': 0, 'k3': 0}, 200)
        add('a.LP-LP.mixed-constants', [['LP'], MIX], [['LP'], MIX], [], {'k0': 0, 'k3': 0}, 200)
        ZER = ['F0', 'F1', 'v0', 'A']
        add('a.zero-arity', [ZER, ['v0', 'int', 'F0']], [ZER, ['v0', 'int', 'F0']], [], {}, 200)
        add('a.h1.v0=v1.leaf-leaf', [LEAVES], [LEAVES], [([['v0']], [['v1']])], {'k0': 0, 'k1': 0}, 200)
        add('a.h1.v0=v1.F2-F2.small', [['F2'], SMALL], [['F2'], SMALL], [([['v0']], [['v1']])],
            {'k0': 0, 'k1': 0, 'k2': 0, 'k5': 0}, 200)
    else:
        # depth 2 on one side (both orders are covered by the symmetry check inside the obligation)
        MID = ['v0', 'v1', 'int', 'A', 'F1']
        LOW = ['v0', 'v1', 'int']
        for c in INNER:
            for c2 in INNER:
                add('a.%s-deep-%s.small' % (c, c2), [[c], MID, LOW], [[c2], SMALL], [], {'k0': 0, 'k7': 0}, 1500)
        for c in INNER:
            add('a.h2.%s-leaf' % c, [[c], SMALL], [LEAVES], [([['v0']], [['v1', 'F1'], ['v2', 'int']]), ([['v1', 'v2']], [['int', 'A', 'F1'], ['v0', 'int']])],
                {}, 1500)
        for c in INNER:
            add('a.%s-leaf' % c, [[c], LEAVES], [LEAVES], [], {'k0': 0}, 200)
            for c2 in INNER:
                add('a.%s-%s.full' % (c, c2), [[c], LEAVES], [[c2], LEAVES], [], {'k0': 0, 'k3': 0}, 1500)
    for u in us:
        u['ob'] = 'C02.a'
        u['bounds'] = 't1 levels %r, t2 levels %r, held-open history %r' % (u['l1'], u['l2'], u['hist'])
        u['weight'] = u['timeout'] / 4
    return us


def build(u):
    info = {}
    spec, body = make_body(u['l1'], u['l2'], [tuple(h) for h in u['hist']], info)
    return ch.harness_from_spec(u['id'], spec, u['fixed'], body, info=info)
