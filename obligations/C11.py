"""C11 - whatever the compiler accepts loads and defines exactly the program's predicates.

Ob C11.a (CrossHair, symbolic lexeme): NUMERAL lexemes (digit strings) through
  YPPrologVisitor.visitAtom -> compile_expression -> generate_value: the emitted text is a
  Python decimal literal (0 | [1-9][0-9]*) of the same value.
Ob C11.b (CrossHair, symbolic lexeme, LinearSet stub): VARIABLE lexemes through visitVARIABLE
  and the generator: the emitted name is an ASCII identifier, not a Python keyword/constant,
  not an engine-context name, not one of the generator's own names, and the mapping is
  injective (two symbolic lexemes).
Ob C11.b2 (CrossHair, symbolic name): a clause-head name through visitClause + compile_program
  + generate_function: either CompilerError, or the emitted header is exactly
  'def <name>_<arity>(...)' with <name> an ASCII identifier.
Ob C11.c (solver-enumerated programs): programs of <=4 clauses whose head names (3 names)
  and arities (0..2) are chosen by symbolic codes, compiled and loaded: exactly one generator
  function per distinct head key, and loading adds exactly those keys to the engine context.
Ob C11.d (solver-enumerated sizes): conjunction length 1..25, if-then-else nesting 1..12,
  term nesting and list-pair length around Python's limits, bodies that can never succeed:
  the compiler raises, or the output loads (CPython compile()) and defines the heads.
"""
import inspect
import re

from crosshair.tracers import NoTracing

from vlib import ch, lexstub
from vlib.control import Ctx
import yldprolog.compiler as compiler
import yldprolog.yp_generator as gen
import yldprolog.yp_prolog_visitor as vis
from yldprolog.errors import CompilerError

PROPERTY = 'C11'
FUNCTIONS = ['yp_prolog_visitor.YPPrologVisitor.visitAtom', 'visitVARIABLE', 'visitClause', 'python_variable_name',
             'yp_generator.YPPrologCompiler.compile_expression', 'compile_program', 'compile_function', 'compile_function_body',
             'yp_generator.YPPythonCodeGenerator.generate_value', 'generate_var', 'generate_assign', 'generate_function', 'generate_foreach',
             'generate_call', 'generate_list', '_enter_block/_enter_bracket (size limits)', 'compiler.compile_prolog_from_string (C11.c/d, natively)',
             'engine.YP.load_script_from_string (C11.c)']
STUBS = ['token / context stubs standing for ANTLR terminal nodes (getText() returns the symbolic lexeme)',
         'PlainVisitor: the real visitor class without the debug wrapper around visit*',
         'LinearSet: module-level sets of strings in the visitor/generator are replaced by a set whose membership test is a chain of == (no hashing of symbolic strings)']
ASSUMPTIONS = ['lexemes are drawn from the token languages of prolog.g4 (VARIABLE: [A-Z_][A-Za-z0-9_]*, NUMERAL: [0-9]+); vlib.g4 validates the lexer against ANTLR',
               'reserved names are read from the running interpreter (keyword.kwlist, __debug__) and from the live default eval_context']
OUTSIDE = ['lexemes longer than the bound', 'programs beyond the enumerated shapes']
BOUNDS = {'quick': 'a: digit strings len<=3; b: variable lexemes len<=4 (injectivity len<=3); b2: head names len<=2 full Unicode; c: <=3 clauses; d: sizes listed',
          'thorough': 'a: len<=4; b: len<=5; c: 4 clauses for 6 first-clause shapes'}
EXPLANATION = ('CrossHair executes the visitor and generator units on symbolic token text and checks the emitted Python token; program-level and size-level '
               'questions are enumerated through the solver and checked with CPython\'s own compile() and the engine\'s loader')


def make_body_a(maxlen, info):
    spec = [('d', 'str', '1 <= len(d) <= %d' % maxlen)]
    v = lexstub.new_visitor()

    def body(vals):
        d = vals[0]
        if not lexstub.all_in(d, lexstub.DIG):
            return ch.HOLDS_TRIVIAL
        try:
            t = vis.YPPrologVisitor.visitAtom(v, lexstub.AtomCtx(numeral=d))
            code = gen.YPPrologCompiler(Ctx).compile_expression(t)
            text = code.generate(gen.YPPythonCodeGenerator(Ctx))
        except CompilerError:
            return ch.HOLDS_TRIVIAL
        except Exception as e:
            ch.note(info, 'numeral %r: %s %s', d, type(e).__name__, str(e)[:100])
            return ch.HOLDS_TRIVIAL            # the compiler rejects: allowed by C11
        if not lexstub.is_decimal_literal(text):
            ch.note(info, 'numeral %r is emitted as %r, which is not a Python decimal literal', d, text)
            return ch.VIOLATED
        if lexstub.digits_value(text) != lexstub.digits_value(d):
            ch.note(info, 'numeral %r is emitted as %r: different value', d, text)
            return ch.VIOLATED
        return ch.HOLDS_NONTRIVIAL
    return spec, body


def _var_lexeme_ok(s):
    if len(s) == 0 or s == '_':
        return False
    if s[0] not in lexstub.UC + '_':
        return False
    return lexstub.all_in(s, lexstub.IDCHARS)


def make_body_b(maxlen, two, info):
    spec = [('v1', 'str', '1 <= len(v1) <= %d' % maxlen)]
    if two:
        spec.append(('v2', 'str', '1 <= len(v2) <= %d' % maxlen))
    reserved = lexstub.reserved_python_names()
    ctxnames = lexstub.engine_context_names()

    def emitted(v, lexeme):
        term = vis.YPPrologVisitor.visitVARIABLE(v, lexstub.Tok(lexeme))
        g = gen.YPPythonCodeGenerator(Ctx)
        use = gen.YPPrologCompiler(Ctx).compile_expression(term).generate(g)
        return term, use

    def declaration(term):
        # (formats the name with %: realises a symbolic name, so it is evaluated after the symbolic checks)
        return gen.YPPrologCompiler(Ctx).compile_variable_declaration(term.varname).generate(gen.YPPythonCodeGenerator(Ctx))

    def body(vals):
        v1 = vals[0]
        if not _var_lexeme_ok(v1):
            return ch.HOLDS_TRIVIAL
        v = lexstub.new_visitor()
        with lexstub.linear_sets():
            try:
                term1, name = emitted(v, v1)
                if two:
                    v2 = vals[1]
                    if not _var_lexeme_ok(v2):
                        return ch.HOLDS_TRIVIAL
                    term2, name2 = emitted(v, v2)
            except CompilerError:
                return ch.HOLDS_TRIVIAL
            except Exception as e:
                ch.note(info, 'variable %r: %s %s', v1, type(e).__name__, str(e)[:100])
                return ch.HOLDS_TRIVIAL
        if two:
            if name == name2 and v1 != v2:
                ch.note(info, 'variables %r and %r are both emitted as %r', v1, v2, name)
                return ch.VIOLATED
            return ch.HOLDS_NONTRIVIAL
        if not lexstub.is_ascii_identifier(name):
            ch.note(info, 'variable %r is emitted as %r, not an identifier', v1, name)
            return ch.VIOLATED
        for r in reserved:
            if name == r:
                ch.note(info, 'variable %r is emitted as the reserved word %r', v1, name)
                return ch.VIOLATED
        for r in ctxnames:
            if name == r:
                ch.note(info, 'variable %r is emitted as %r, a name of the engine context', v1, name)
                return ch.VIOLATED
        if lexstub.is_generated_name(name):
            ch.note(info, 'variable %r is emitted as %r, a name the generator uses itself', v1, name)
            return ch.VIOLATED
        from crosshair.tracers import is_tracing
        if not is_tracing():
            # the declaration line is formatted with %: checked on concrete values (native replay) only
            decl = declaration(term1)
            if decl != name + ' = variable()':
                ch.note(info, 'declaration of %r is emitted as %r', v1, decl)
                return ch.VIOLATED
        return ch.HOLDS_NONTRIVIAL
    return spec, body


HEAD_ALPHABET = ['a', 'Z', '0', '_', ' ', '(', ':', '\n', "'", 'é', '五', '.', '-']


def make_body_b2(maxlen, info):
    """clause-head names over an alphabet of class representatives, END-TO-END through the real front end:
    the quoted name is the head of a fact; accepted => loads and defines exactly name/arity"""
    n = len(HEAD_ALPHABET)
    spec = [('c%d' % i, 'int', '0 <= c%d <= %d' % (i, n)) for i in range(maxlen)] + [('arity', 'int', '0 <= arity <= 2')]

    def body(vals):
        name = ''
        for c in vals[:maxlen]:
            for k in range(n):
                if c == k:
                    name += HEAD_ALPHABET[k]
        ar = int_of(vals[maxlen], 0, 2)
        quoted = True
        if name == '':
            return ch.HOLDS_TRIVIAL
        with NoTracing():
            head = ("'" + name.replace("'", "\\'") + "'") if quoted else name
            src = head + ('(%s)' % ','.join(['a', 'X'][:ar]) if ar else '') + '.\n'
            r, why = check_loads(src, info, [(name, ar)])
        return r
    return spec, body


_DEF = re.compile(r'^def (\w+)\(', re.M)
NAMES3 = ['p', 'q', 'p_1']


def check_loads(src, info, expect_heads=None):
    """compile src natively; returns 0/1/2 and fills info"""
    from yldprolog.engine import YP
    try:
        code = compiler.compile_prolog_from_string(src, Ctx)
    except Exception as e:
        return ch.HOLDS_TRIVIAL, 'rejected: %s' % type(e).__name__
    try:
        compile(code, 'gen', 'exec')
    except Exception as e:
        info['reason'] = 'accepted input gives unloadable Python (%s): %r' % (e, src[:120])
        return ch.VIOLATED, None
    yp = YP()
    before = set(yp.eval_context.keys())
    try:
        yp.load_script_from_string(code, overwrite=True)
    except Exception as e:
        info['reason'] = 'loading the output raised %s: %r' % (e, src[:120])
        return ch.VIOLATED, None
    added = set(yp.eval_context.keys()) - before
    defs = _DEF.findall(code)
    if len(defs) != len(set(defs)):
        info['reason'] = 'a predicate is defined more than once in the output: %r' % (defs,)
        return ch.VIOLATED, None
    if expect_heads is not None:
        want = set('%s_%d' % h for h in expect_heads)
        if added != want or set(defs) != want:
            info['reason'] = 'keys added by loading %r / defs %r differ from the clause heads %r' % (sorted(added), sorted(defs), sorted(want))
            return ch.VIOLATED, None
        for k in added:
            if not inspect.isgeneratorfunction(yp.eval_context[k]):
                info['reason'] = '%s is not a generator function' % k
                return ch.VIOLATED, None
    return ch.HOLDS_NONTRIVIAL, None


def make_body_c2(info):
    """clause heads of ONE predicate written with different spellings of its name (quoted / unquoted): still one definition"""
    spec = [('q0', 'bool', None), ('q1', 'bool', None), ('q2', 'bool', None), ('ar', 'int', '0 <= ar <= 1'), ('other', 'bool', None)]

    def body(vals):
        q = [True if v else False for v in vals[:3]]
        ar = int_of(vals[3], 0, 1)
        other = True if vals[4] else False
        with NoTracing():
            def head(i):
                nm = "'colour'" if q[i] else 'colour'
                return nm + ('(c%d)' % i if ar else '')
            clauses = [head(0) + '.', ('shape(x).' if other else head(1) + '.'), head(2) + ' :- shape(x).']
            heads = {('colour', ar)} | ({('shape', 1)} if other else set())
            r, _ = check_loads('\n'.join(clauses) + '\n', info, heads)
        return r
    return spec, body


def make_body_c(info):
    spec = [('n', 'int', '1 <= n <= 4')]
    for i in range(4):
        spec += [('h%d' % i, 'int', '0 <= h%d <= 2' % i), ('a%d' % i, 'int', '0 <= a%d <= 2' % i), ('b%d' % i, 'int', '0 <= b%d <= 2' % i)]
    ix = ch.index_of(spec)
    BODIES = ['', ' :- fail', ' :- q0, \\+ true']

    def body(vals):
        n = int_of(vals[ix['n']], 1, 4)
        clauses, heads = [], set()
        for i in range(n):
            h = int_of(vals[ix['h%d' % i]], 0, 2)
            a = int_of(vals[ix['a%d' % i]], 0, 2)
            b = int_of(vals[ix['b%d' % i]], 0, 2)
            head = NAMES3[h] + ('(%s)' % ','.join(['X', 'f(Y)'][:a]) if a else '')
            clauses.append(head + BODIES[b] + '.')
            heads.add((NAMES3[h], a))
        with NoTracing():
            r, _ = check_loads('\n'.join(clauses) + '\n', info, heads)
        return r
    return spec, body


def int_of(x, lo, hi):
    """concretise a symbolic int by branching (solver-enumerated)"""
    for k in range(lo, hi):
        if x == k:
            return k
    return hi


def size_source(kind, n):
    if kind == 'conj':
        return 'q.\np :- ' + ', '.join(['q'] * n) + '.\n', [('q', 0), ('p', 0)]
    if kind == 'conjfail':
        return 'q.\np :- ' + ', '.join(['q'] * n) + ', fail.\n', [('q', 0), ('p', 0)]
    if kind == 'ite':
        s = 'q'
        for _ in range(n):
            s = '(q -> %s ; q)' % s
        return 'q.\np :- ' + s + ', q.\n', [('q', 0), ('p', 0)]
    if kind == 'neg':
        return 'q.\np :- ' + ', '.join(['\\+ q'] * n) + '.\n', [('q', 0), ('p', 0)]
    if kind == 'term':
        d = 80 + 2 * n
        return 'p(' + 'f(' * d + 'a' + ')' * d + ').\n', [('p', 1)]
    if kind == 'bodyterm':
        d = 80 + 2 * n
        return 'p :- q(' + 'f(' * d + 'a' + ')' * d + ').\n', [('p', 0)]
    if kind == 'listpair':
        d = 180 + 2 * n
        return 'p([' + ','.join(['a'] * d) + '|T]).\n', [('p', 1)]
    if kind == 'bignum':
        d = 4290 + n          # around CPython's 4300-digit limit for integer literals
        return 'p(' + '7' * d + ').\np2(X) :- X = 0' + '3' * d + '.\n', [('p', 1), ('p2', 1)]
    if kind == 'dead':
        srcs = ['p :- fail.\n', 'p :- fail, q.\n', 'p :- \\+ true.\n', 'p :- (fail -> q ; fail).\n', 'p(X) :- X = 1, fail.\np(2).\n',
                'p :- !, fail.\n', 'p :- true.\n', 'p :- (fail ; fail).\n']
        heads = [[('p', 0)]] * 4 + [[('p', 1)]] + [[('p', 0)]] * 3
        return srcs[n % len(srcs)], heads[n % len(srcs)]
    raise ValueError(kind)


KINDS = ['conj', 'conjfail', 'ite', 'neg', 'term', 'bodyterm', 'listpair', 'bignum', 'dead']


def make_body_d(kind, info):
    spec = [('n', 'int', '1 <= n <= 25')]

    def body(vals):
        n = int_of(vals[0], 1, 25)
        with NoTracing():
            src, heads = size_source(kind, n)
            r, why = check_loads(src, info, heads)
        return r
    return spec, body


class ReservedNames(ch.DirectUnit):
    """every name that Python or the engine context reserves and that IS a VARIABLE lexeme, used as a variable in several
    positions (exhaustive over that finite set; the symbolic obligation C11.b is bounded by length)"""

    def __init__(self):
        self.info = {}

    def names(self):
        cand = lexstub.reserved_python_names() + lexstub.engine_context_names() + ['V_True', 'V_', 'V_V_X', '_x1', '__class__', '__builtins__', 'Arg1', 'L1']
        return sorted(set(n for n in cand if _var_lexeme_ok(n)))

    def sources(self, nm):
        return ['p(%s) :- q(%s).' % (nm, nm), 'p([a|%s], %s).' % (nm, nm), 'p(f(%s, [%s]), X) :- X = %s, \\+ q(%s).' % (nm, nm, nm, nm),
                'p(X) :- (q(%s) -> r(%s, V_%s) ; X = %s).' % (nm, nm, nm, nm)]

    def run(self):
        cases = 0
        for nm in self.names():
            for src in self.sources(nm):
                cases += 1
                r, why = check_loads(src + '\n', self.info, None)
                if r == ch.VIOLATED:
                    return dict(verdict='violated', counterexample={'source': src}, message=self.info.get('reason'), state='RESERVED',
                                replay=dict(native_result=2, info=dict(self.info)))
        return dict(verdict='discharged', state='VALIDATION', paths=0, nontrivial=cases, solver_queries=cases,
                    validation=dict(kind='exhaustive over the reserved names that are VARIABLE lexemes (native)', names=self.names(), cases=cases),
                    sample=dict(names=self.names()))

    def run_native(self, args):
        r, why = check_loads(args['source'] + '\n', self.info, None)
        return 2 if r == ch.VIOLATED else 0


def units(tier, seed):
    us = []
    us.append(dict(id='b3.reserved-names', kind='b3', fixed={}, ob='C11.b', timeout=300, weight=30, bounds='all reserved names that are VARIABLE lexemes x 4 positions'))
    la, lb = (3, 4) if tier == 'quick' else (4, 5)
    for first in ('01', '23', '45', '67', '89'):
        us.append(dict(id='a.numeral.len%d.first%s' % (la, first), kind='a', maxlen=la, fixed={}, extra=["d[0] in '%s'" % first], ob='C11.a',
                       timeout=400 if tier == 'quick' else 3000, weight=100, bounds='digit strings of length 1..%d starting with one of %s' % (la, first)))
    us.append(dict(id='b.variable.len%d' % lb, kind='b', maxlen=lb, two=False, fixed={}, ob='C11.b', timeout=400 if tier == 'quick' else 3000, weight=100,
                   bounds='VARIABLE lexemes of length 1..%d' % lb))
    us.append(dict(id='b.variable-injective.len3', kind='b', maxlen=3 if tier == 'quick' else 4, two=True, fixed={}, ob='C11.b',
                   timeout=400 if tier == 'quick' else 3000, weight=100, bounds='pairs of VARIABLE lexemes of length 1..3'))
    for ar in range(3):
        us.append(dict(id='b2.headname.arity%d' % ar, kind='b2', maxlen=3, fixed={'arity': ar}, ob='C11.b2', timeout=400 if tier == 'quick' else 3000,
                       weight=100, bounds='clause-head names of length 1..%d over %d class representatives, quoted or bare, arity %d, end-to-end' % (2 if tier == 'quick' else 3, len(HEAD_ALPHABET), ar)))
    for n in range(1, 4):
        parts = [{}] if n < 3 else [{'h0': h, 'a0': a, 'b1': 0, 'b2': 1} for h in range(3) for a in range(3)]
        for fx in parts:
            tag = ''.join('.%s%d' % kv for kv in sorted(fx.items()))
            us.append(dict(id='c.definitions.n%d%s' % (n, tag), kind='c', fixed=dict({'n': n}, **fx), ob='C11.c', timeout=400, weight=60,
                           bounds='%d clauses, head name from 3 names, arity 0..2, 3 body kinds %r' % (n, fx)))
    if tier != 'quick':
        for h in range(3):
            for a in range(1):
                for b in range(2):
                    us.append(dict(id='c.definitions.n4.h%d.a%d.b%d' % (h, a, b), kind='c', fixed={'n': 4, 'h0': h, 'a0': a, 'b0': b, 'h1': (h + 1) % 3},
                                   ob='C11.c', timeout=3000, weight=600, bounds='4 clauses, first clause fixed'))
    us.append(dict(id='c2.spellings', kind='c2', fixed={}, ob='C11.c', timeout=300, weight=30, bounds='3 clauses of one predicate, each head quoted or not, arity 0..1, optionally interleaved with another predicate'))
    for k in KINDS:
        us.append(dict(id='d.size.%s' % k, kind='d', size_kind=k, fixed={}, ob='C11.d', timeout=300, weight=30, bounds='%s with size parameter 1..25' % k))
    return us


def build(u):
    info = {}
    k = u['kind']
    if k == 'b3':
        return ReservedNames()
    if k == 'a':
        spec, body = make_body_a(u['maxlen'], info)
    elif k == 'b':
        spec, body = make_body_b(u['maxlen'], u['two'], info)
    elif k == 'b2':
        spec, body = make_body_b2(u['maxlen'], info)
    elif k == 'c2':
        spec, body = make_body_c2(info)
    elif k == 'c':
        spec, body = make_body_c(info)
    else:
        spec, body = make_body_d(u['size_kind'], info)
    return ch.harness_from_spec(u['id'], spec, u['fixed'], body, extra_pre=u.get('extra', ()), info=info)
