"""C16 - source literals and Python values denote the same terms.

Ob C16.a (CrossHair, fully symbolic text): YPPrologVisitor.unquoteString(quote(t)) == t for
  every backslash-free text t (any Unicode, quotes, newlines), where quote(t) wraps t in
  single quotes writing every ' as \\' .
Ob C16.b (direct SMT on the grammar): with STRING's regular expression read from prolog.g4,
  z3 decides that every quoted form '...' of an escaped body is in L(STRING) and that no
  longer prefix of quoted-form + suffix is (so longest-match lexing consumes exactly the
  quoted atom), unbounded in length.
Ob C16.c (CrossHair): facts whose arguments are source literals (nested compounds, [...]
  lists, [H|T] patterns, [], _, quoted atoms with quotes / newlines / non-ASCII text,
  integers) compiled by the current compiler; queried with API-built terms whose integer
  leaves and binding modes are symbolic; answers equal the reference unifier's.
Ob C16.d (CrossHair): to_python of decoded terms (proper lists, nil, compounds, unbound
  variables, symbolic ints) equals the reference mapping.
Ob C16.e (CrossHair): atoms are interned per engine (same name <=> same object, names from
  a finite alphabet because dict hashing realises) and unify across engines iff names are
  equal (names fully symbolic).
"""
from vlib import ch, g4
from vlib.sld import V, A, C, F, L, NIL, call, conj, eq, TRUE, build_sld_unit
from vlib.terms import Decoder, slot_alphabet_sizes, ref_to_python, show, resolve
from yldprolog.engine import YP, Atom, Variable, unify, to_python

PROPERTY = 'C16'
FUNCTIONS = ['yp_prolog_visitor.YPPrologVisitor.unquoteString', 'prolog.g4 STRING rule (as z3 regular expression)',
             'compiled facts with literal arguments (visitTerm/visitAtom/compile_expression/compile_list/generate_* via the real compiler, natively)',
             'engine.YP.atom', 'engine.YP.functor', 'engine.YP.listpair', 'engine.YP.makelist', 'engine.to_python',
             'engine.Atom.to_python', 'engine.Functor.to_python', 'engine.Variable.to_python', 'engine.Atom.unify']
STUBS = ['unquoteString is called on an instance created without the ANTLR base initialisation (it uses no instance state)']
ASSUMPTIONS = ['atoms free of backslashes (the statement excludes them)', 'improper lists are not passed to to_python (unspecified)']
OUTSIDE = ['texts longer than the bound for C16.a', 'literal family beyond the listed facts']
BOUNDS = {'quick': 'a: len(t)<=4 full Unicode; b: unbounded (regex reasoning); c: 6 literal facts, symbolic ints/modes; d: depth<=2 terms; e: 3-letter alphabet',
          'thorough': 'a: len(t)<=6'}
EXPLANATION = ('CrossHair executes the unquoting loop on fully symbolic text; z3 decides the longest-match property of STRING from the grammar; '
               'compiled literals are matched against API-built terms with symbolic payloads; CONFIRMED = path tree exhausted')


def quote(t):
    return "'" + t.replace("'", "\\'") + "'"


def make_body_a(maxlen, info):
    from yldprolog.yp_prolog_visitor import YPPrologVisitor
    spec = [('t', 'str', 'len(t) <= %d' % maxlen)]
    vis = YPPrologVisitor.__new__(YPPrologVisitor)

    def body(vals):
        t = vals[0]
        if chr(92) in t:
            return ch.HOLDS_TRIVIAL
        q = "'" + t.replace("'", chr(92) + "'") + "'"
        try:
            r = YPPrologVisitor.unquoteString(vis, q)
        except Exception as e:
            ch.note(info, 'unquoteString raised %s', type(e).__name__)
            return ch.VIOLATED
        if r != t:
            ch.note(info, 'unquoteString(%r) = %r, expected %r', q, r, t)
            return ch.VIOLATED
        return ch.HOLDS_NONTRIVIAL if "'" in t else ch.HOLDS_TRIVIAL
    return spec, body


ENUM_ALPHABET = ["'", 'a', ' ', '\n', 'é', '"', ')']


def make_body_a2(maxlen, info):
    """the same round trip over class representatives, computed on concrete strings (solver-enumerated): independent of
    CrossHair's modelling of whatever string methods an implementation uses"""
    from yldprolog.yp_prolog_visitor import YPPrologVisitor
    from crosshair.tracers import NoTracing
    n = len(ENUM_ALPHABET)
    spec = [('c%d' % i, 'int', '0 <= c%d <= %d' % (i, n)) for i in range(maxlen)]
    vis = YPPrologVisitor.__new__(YPPrologVisitor)

    def body(vals):
        t = ''
        for c in vals:
            for k in range(n):
                if c == k:
                    t += ENUM_ALPHABET[k]
        with NoTracing():
            q = "'" + t.replace("'", chr(92) + "'") + "'"
            try:
                r = YPPrologVisitor.unquoteString(vis, q)
            except Exception as e:
                info['reason'] = 'unquoteString(%r) raised %s' % (q, type(e).__name__)
                return ch.VIOLATED
            if r != t:
                info['reason'] = 'unquoteString(%r) = %r, expected %r' % (q, r, t)
                return ch.VIOLATED
        return ch.HOLDS_NONTRIVIAL if "'" in t else ch.HOLDS_TRIVIAL
    return spec, body


class StringLongestMatch(ch.DirectUnit):
    """z3 on the STRING rule of the grammar"""

    def __init__(self):
        self.info = {}

    def run(self):
        import time
        import z3
        lexer = g4.Lexer()
        R = g4.to_z3(lexer.rule_ast('STRING'))
        S = z3.StringSort()
        anychar = z3.AllChar(z3.ReSort(S))
        notspecial = z3.Diff(anychar, z3.Union(z3.Re(z3.StringVal("'")), z3.Re(z3.StringVal(chr(92)))))
        body = z3.Star(z3.Union(notspecial, z3.Re(z3.StringVal(chr(92) + "'"))))       # escaped bodies of backslash-free texts
        e, s = z3.String('e'), z3.String('s')
        q = z3.Concat(z3.StringVal("'"), e, z3.StringVal("'"))
        results = []
        t_all = 0.0
        for label, constraints in [
            ('quoted form of every escaped body is a STRING lexeme', [z3.InRe(e, body), z3.Not(z3.InRe(q, R))]),
            ('no longer prefix of quoted form + suffix is a STRING lexeme', [z3.InRe(e, body), z3.Length(s) > 0, z3.InRe(z3.Concat(q, s), R)]),
        ]:
            sol = z3.Solver()
            sol.set('timeout', 60000)
            for c in constraints:
                sol.add(c)
            t0 = time.perf_counter()
            r = str(sol.check())
            dt = time.perf_counter() - t0
            t_all += dt
            model = None
            if r == 'sat':
                m = sol.model()
                model = {str(d): str(m[d]) for d in m.decls()}
            results.append(dict(query=label, z3=r, z3_s=round(dt, 3), model=model))
        bad = [r for r in results if r['z3'] == 'sat']
        if bad:
            why = 'grammar STRING rule: %s fails, model %r' % (bad[0]['query'], bad[0]['model'])
            return dict(verdict='violated', counterexample=dict(query=bad[0]['query'], model=bad[0]['model']), message=why,
                        replay=dict(native_result=2, info={'reason': why}), queries=results)
        if any(r['z3'] != 'unsat' for r in results):
            return dict(verdict='inconclusive', detail='z3: %r' % [(r['query'], r['z3']) for r in results], queries=results)
        return dict(verdict='discharged', state='SMT', queries=results, solver_s=round(t_all, 3), solver_queries=len(results),
                    nontrivial=len(results), paths=0, sample=dict(string_rule=g4.to_pyre(lexer.rule_ast('STRING'))))

    def run_native(self, args):
        # replay: tokenise the model's text with the g4-derived lexer
        lexer = g4.Lexer()
        m = args.get('model') or {}
        e = (m.get('e') or '').strip('"')
        text = "'" + e + "'" + (m.get('s') or '').strip('"')
        toks = lexer.tokenize(text)
        self.info['reason'] = 'tokens of %r: %r' % (text, toks[:3])
        return 2 if (not toks or toks[0][1] != "'" + e + "'") else 0


X, Y, T, H = V('X'), V('Y'), V('T'), V('H')
neq_ = lambda a, b: ('call', F('\\=', a, b))
_ = lambda k: V('_anon%d' % k)


def literal_skeletons():
    S = []

    def sk(name, clauses, query):
        S.append(dict(name=name, clauses=clauses, query=query, facts={}))
    sk('nested', [(F('p', F('f', A('a'), F('g', C(1), L(C(2), C(3)))), X, X), TRUE)],
       ('p', [('fixed', F('f', V('Q1'), F('g', ('sym', 0), L(V('Q2'), ('sym', 1))))), 'any', 'any']))
    sk('listpat', [(F('p', L(H, tail=T), H, T), TRUE), (F('p', NIL, A('none'), NIL), TRUE)],
       ('p', [('fixed', L(('sym', 0), ('sym', 1))), 'any', 'any']))
    sk('listpat2', [(F('p', L(C(1), H, tail=T), H, T), TRUE)],
       ('p', ['any', 'any', 'any']))
    sk('quoted', [(F('p', A("it's"), A('two\nlines'), A('hé 五')), TRUE), (F('p', A('A b'), A(''), A('[]')), TRUE)],
       ('p', ['any', 'any', ('fixed', V('Q3'))]))
    sk('quotedpos', [(F('r', A('two\nlines'), C(1)), TRUE), (F('r', A("it's"), C(2)), TRUE),
                     (F('q', X, A('hé')), eq(X, A("it's"))), (F('q', X, Y), conj(call('r', A('two\nlines'), X), eq(Y, A('A b')))),
                     (F('q', X, Y), conj(call('r', Y, X), neq_(Y, A('two\nlines'))))],
       ('q', ['any', 'any']))
    # one clause laid out over many lines with anonymous variables at many line/column positions: every _ is its own variable
    ml_args = [A('hub')] + [_(k) for k in range(1, 14)] + [A('end')]
    # layout: two _ on line 1 (columns 11 and 14), one per line on lines 2-10 (varying columns, some repeated), two on line 11
    # (columns 1 and 4): the same column recurs on different lines, and line/column digit strings of different _ concatenate alike
    ml_src = ('route(hub, _, _,\n' + ''.join(' ' * (k % 5) + '_,\n' for k in range(1, 10)) + ' _, _,\n' + '  end).\n')
    S.append(dict(name='multiline', clauses=[(F('route', *ml_args), TRUE)], source=ml_src, facts={},
                  query=('route', [('fixed', A('hub'))] + [('fixed', ('sym', 0)), ('fixed', ('sym', 1))] + [('fixed', V('Q%d' % k)) for k in range(3, 13)]
                         + ['any', ('fixed', A('end'))])))
    sk('lookalike', [(F('p', F('point', A('a,b')), C(1)), TRUE), (F('p', F('point', A('a'), A('b')), C(2)), TRUE),
                     (F('p', F('tag', A('X')), C(3)), TRUE), (F('p', F('tag', X), C(4)), TRUE),
                     (F('p', L(A('x,y')), C(5)), TRUE), (F('p', L(A('x'), A('y')), C(6)), TRUE),
                     (F('p', F('f', A('x1')), C(7)), TRUE), (F('p', F('f', _(9)), C(8)), TRUE)],
       ('p', ['any', 'any']))
    sk('anon',


 [(F('p', _(1), _(2), F('f', _(3))), TRUE)],
       ('p', ['any', 'any', 'any']))
    sk('nilint', [(F('p', NIL, C(0), L()), TRUE), (F('p', L(NIL), C(7), L(L(C(1)))), TRUE)],
       ('p', ['any', 'any', 'any']))
    return S


LEVELS_D = [['v0', 'int', 'A', 'nil', 'F1', 'F2', 'LP'], ['v0', 'v1', 'int', 'nil', 'LP'], ['int', 'nil', 'v1']]


def make_body_d(info):
    spec = []
    k = 0
    for size in slot_alphabet_sizes(LEVELS_D):
        spec.append(('k%d' % k, 'int', '0 <= k%d <= %d' % (k, size - 1)))
        k += 1
    nc = k
    spec += [('i%d' % i, 'int', None) for i in range(nc)]

    def proper(t):
        """no '.'/2 node with a tail that is not a proper list (to_python leaves those unspecified)"""
        if t[0] != 'f':
            return True
        if t[1] == '.' and len(t[2]) == 2:
            tail = t[2][1]
            while tail[0] == 'f' and tail[1] == '.' and len(tail[2]) == 2:
                if not proper(tail[2][0]):
                    return False
                tail = tail[2][1]
            if tail != ('a', '[]'):
                return False
            return proper(t[2][0])
        return all(proper(a) for a in t[2])

    def body(vals):
        ch.install_registry(False)
        vs = [Variable(), Variable(), Variable()]
        dec = Decoder(vs, ['a', 'b', 'f', 'g'], vals[:nc], vals[nc:2 * nc])
        t, r = dec.term(LEVELS_D)
        if not proper(r):
            return ch.HOLDS_TRIVIAL
        try:
            got = to_python(t)
        except Exception as e:
            ch.note(info, 'to_python raised %s: %s', type(e).__name__, str(e)[:100])
            return ch.VIOLATED
        exp = ref_to_python(r, {})
        if got != exp:
            ch.note(info, 'to_python gives %r, reference %r', got, exp)
            return ch.VIOLATED
        return ch.HOLDS_NONTRIVIAL
    return spec, body


ALPHA = ['a', 'b', '[]']


def make_body_e(info):
    spec = [('i', 'int', '0 <= i <= 2'), ('j', 'int', '0 <= j <= 2'), ('n1', 'str', 'len(n1) <= 3'), ('n2', 'str', 'len(n2) <= 3')]

    def body(vals):
        i, j, n1, n2 = vals
        yp, yp2 = ch.new_engine(), ch.new_engine()
        a = b = None
        for k in range(3):
            if i == k:
                a = yp.atom(ALPHA[k])
            if j == k:
                b = yp.atom(ALPHA[k])
        if (a is b) != (i == j):
            ch.note(info, 'atom(%r) is atom(%r) = %r', i, j, a is b)
            return ch.VIOLATED
        if yp2.atom('a') is yp.atom('a'):
            ch.note(info, 'two engines share an atom object')
            return ch.VIOLATED
        x, y = Atom(n1), Atom(n2)          # atoms of two engines (constructed directly: names stay symbolic)
        n = 0
        for _ in unify(x, y):
            n += 1
        if (n == 1) != (n1 == n2) or n > 1:
            ch.note(info, 'atoms %r and %r unify %d times', n1, n2, n)
            return ch.VIOLATED
        if to_python(x) != ([] if n1 == '[]' else n1):
            ch.note(info, 'to_python(atom %r) = %r', n1, to_python(x))
            return ch.VIOLATED
        return ch.HOLDS_NONTRIVIAL
    return spec, body


def units(tier, seed):
    us = []
    maxlen = 4 if tier == 'quick' else 6
    us.append(dict(id='a.unquote.len%d' % maxlen, kind='a', maxlen=maxlen, fixed={}, ob='C16.a', timeout=300 if tier == 'quick' else 2400, weight=60,
                   bounds='texts of length <=%d over full Unicode' % maxlen))
    for c0 in range(len(ENUM_ALPHABET) + 1):
        us.append(dict(id='a2.unquote.enum.c0=%d' % c0, kind='a2', maxlen=4, fixed={'c0': c0}, ob='C16.a', timeout=300, weight=40,
                       bounds='texts of length <=4 over the class representatives %r (solver-enumerated, native), first symbol %d' % (ENUM_ALPHABET, c0)))
    us.append(dict(id='b.string-longest-match', kind='b', fixed={}, ob='C16.b', timeout=200, weight=20, bounds='unbounded regular-expression reasoning (z3)'))
    for sk in literal_skeletons():
        us.append(dict(id='c.literal.%s' % sk['name'], kind='c', skeleton=sk['name'], fixed={}, ob='C16.c', timeout=300 if tier == 'quick' else 1200,
                       weight=40, cap=8, bounds='literal fact family %s; symbolic query modes and integer leaves' % sk['name']))
    for k0 in range(len(LEVELS_D[0])):
        us.append(dict(id='d.to_python.top%s' % LEVELS_D[0][k0], kind='d', fixed={'k0': k0}, ob='C16.d', timeout=300 if tier == 'quick' else 1200, weight=40,
                       bounds='to_python on terms of depth <=2 with top symbol %s' % LEVELS_D[0][k0]))
    us.append(dict(id='e.atoms', kind='e', fixed={}, ob='C16.e', timeout=200, weight=20, bounds='interning over a 3-name alphabet; cross-engine unification with symbolic names len<=3'))
    return us


def build(u):
    info = {}
    if u['kind'] == 'b':
        return StringLongestMatch()
    if u['kind'] == 'c':
        sk = [s for s in literal_skeletons() if s['name'] == u['skeleton']][0]
        return build_sld_unit(u, sk)
    if u['kind'] == 'a':
        spec, body = make_body_a(u['maxlen'], info)
    elif u['kind'] == 'a2':
        spec, body = make_body_a2(u['maxlen'], info)
    elif u['kind'] == 'd':
        spec, body = make_body_d(info)
    else:
        spec, body = make_body_e(info)
    return ch.harness_from_spec(u['id'], spec, u['fixed'], body, info=info)
