"""C17 - evaluate_bounded returns a prefix of the answers and restores the interpreter.

Ob C17.a (control flow): YP.evaluate_bounded with engine.sys replaced by a stub.  Symbolic:
the old recursion limit, the requested limit, the number of answers of the source, the
index at which the source raises (RecursionError / other RuntimeError / a private
exception / nothing), the index at which the projection function raises (RuntimeError /
private exception / nothing).  Checks: the limit is restored in every case; no
RecursionError escapes; the result is the prefix of projections; a source generator that
is still suspended is closed.
Ob C17.b (real searches): evaluate_bounded over YP.query on compiled skeletons whose
user predicate u/1 raises RecursionError at a symbolic invocation; the result is a prefix
of refprolog's answers, every Variable created is unbound afterwards, the limit restored.
Ob C17.c (strike inside a term unification): evaluate_bounded over YP.query on <=3 dynamic
facts item(c,_,_) with symbolic integer constants; the query's first argument is a variable
or a symbolic integer, and a later argument is a foreign IUnifiable term whose unify()
raises RecursionError at a symbolic invocation - i.e. inside unify_arrays, while the
unification of the earlier argument is suspended with its binding in place and outside
unify_arrays' try/finally.  Checks: limit restored, nothing escapes, result equals the
expected prefix, every Variable created is unbound when evaluate_bounded returns (no
reliance on the cyclic garbage collector to finalise the suspended unifications).
Validation (native, not the decider): real low limits on a deep and a left-recursive program.
"""
import sys as _realsys

from vlib import ch
from vlib.sld import (V, A, C, F, L, NIL, call, conj, eq, neq, TRUE, FAIL, CUT, make_spec, compile_skeleton, setup, ref_answers)
from vlib.terms import show, runify, Cyclic
from vlib.refprolog import StepLimit
from vlib.ch import DirectUnit
import yldprolog.engine as engine
from yldprolog.engine import unify

PROPERTY = 'C17'
FUNCTIONS = ['engine.YP.evaluate_bounded', 'engine.YP.query', 'generated code of the skeletons', 'engine.YP.once',
             'engine.YP.findall', 'engine.YP.builtin_neq', 'engine.Variable.unify', 'engine.unify_arrays']
STUBS = ['SysStub assigned to yldprolog.engine.sys: getrecursionlimit/setrecursionlimit store and return an arbitrary (symbolic) int',
         'the recursion limit striking is modelled as RecursionError raised by the user predicate u/1 at a symbolic invocation '
         '(or by the source generator at a symbolic index, or - C17.c - by the unify() of a foreign IUnifiable term inside unify_arrays)',
         'Variable registry via the YLDPROLOG_VERIF hook']
ASSUMPTIONS = ['one thread; the caller\'s own stack is shallower than the limit']
OUTSIDE = ['strikes of the real limit at other points inside engine internals (between a binding and its try block); C17.c covers the strike inside a nested unification of unify_arrays', 'other threads',
           'the native validation with real limits is not a solver verdict']
BOUNDS = {'quick': 'C17.a: <=3 answers, all raise kinds/indices, limits symbolic ints; C17.b: 6 skeletons, <=2 facts, strike at invocation 0(never)..4, '
                   'projection raising at answer 0(never)..2',
          'thorough': 'C17.b with <=3 facts and all query modes'}
EXPLANATION = ('CrossHair executes evaluate_bounded with the interpreter limit, the strike point and the projection fault symbolic; on every '
               'path the limit must be restored, no recursion error may escape, the result must be a prefix of the reference answers and '
               'all variables unbound; CONFIRMED = path tree exhausted')


class Private(Exception):
    pass


class SysStub:
    def __init__(self, limit):
        self.limit = limit
        self.sets = 0

    def getrecursionlimit(self):
        return self.limit

    def setrecursionlimit(self, n):
        self.limit = n
        self.sets += 1


def make_body_a(info):
    spec = [('old', 'int', '50 <= old <= 100000'), ('req', 'int', '10 <= req <= 100000'), ('n', 'int', '0 <= n <= 3'),
            ('sat', 'int', '0 <= sat <= 3'), ('skind', 'int', '0 <= skind <= 3'),
            ('pat', 'int', '0 <= pat <= 3'), ('pkind', 'int', '0 <= pkind <= 3'), ('nested', 'bool', None), ('req2', 'int', '10 <= req2 <= 100000')]
    ix = ch.index_of(spec)

    def body(vals):
        ch.install_registry(False)
        g = lambda k: vals[ix[k]]
        yp = ch.new_engine()
        stub = SysStub(g('old'))
        state = {'closed': False, 'finished': False}

        def source():
            try:
                i = 0
                while True:
                    if g('skind') != 0 and i == g('sat'):
                        if g('skind') == 1:
                            raise RecursionError('maximum recursion depth exceeded')
                        if g('skind') == 2:
                            raise RuntimeError('other')
                        raise Private('source')
                    if i >= g('n'):
                        break
                    yield False
                    i += 1
                state['finished'] = True
            finally:
                state['closed'] = True
        proj_calls = [0]

        def proj(x):
            proj_calls[0] += 1
            if g('nested') and proj_calls[0] == 1:
                # the projection itself runs a bounded evaluation on the same engine (re-entrancy)
                inner = yp.evaluate_bounded(iter([False, False]), lambda y: 7, g('req2'))
                if inner != [7, 7]:
                    state['inner_wrong'] = True
            if g('pkind') != 0 and proj_calls[0] - 1 == g('pat'):
                if g('pkind') == 1:
                    raise RuntimeError('projection')
                if g('pkind') == 3:
                    raise RecursionError('maximum recursion depth exceeded (in the projection)')
                raise Private('projection')
            return proj_calls[0] - 1
        saved = engine.sys
        engine.sys = stub
        escaped = None
        result = None
        try:
            src = source()          # the caller keeps the generator, as in the documented  q = yp.query(...)  idiom
            try:
                result = yp.evaluate_bounded(src, proj, g('req'))
            except Exception as e:
                escaped = e
        finally:
            engine.sys = saved
        if stub.limit != g('old'):
            ch.note(info, 'recursion limit afterwards %r, before %r', stub.limit, g('old'))
            return ch.VIOLATED
        if isinstance(escaped, RecursionError):
            ch.note(info, 'a RecursionError escaped')
            return ch.VIOLATED
        if not state['closed'] and proj_calls[0] > 0:
            ch.note(info, 'the source generator was left suspended')
            return ch.VIOLATED
        if escaped is not None:
            if not isinstance(escaped, Private):
                ch.note(info, 'unexpected exception escaped: %r', escaped)
                return ch.VIOLATED
            return ch.HOLDS_NONTRIVIAL
        if result != list(range(len(result))):
            ch.note(info, 'result %r is not the sequence of projections', result)
            return ch.VIOLATED
        # how many projections should have been collected
        exp = g('n')
        if g('skind') != 0 and g('sat') < exp:
            exp = g('sat')
        if (g('pkind') == 1 or g('pkind') == 3) and g('pat') < exp:
            exp = g('pat')
        if state.get('inner_wrong'):
            ch.note(info, 'a nested evaluate_bounded returned a wrong result')
            return ch.VIOLATED
        if len(result) != exp:
            ch.note(info, 'result has %d entries, expected %d', len(result), exp)
            return ch.VIOLATED
        return ch.HOLDS_NONTRIVIAL if len(result) else ch.HOLDS_TRIVIAL
    return spec, body


X, Y, Z, Lq = V('X'), V('Y'), V('Z'), V('L')


def skeletons(nf):
    S = []

    def sk(name, clauses, query, facts):
        S.append(dict(name=name, clauses=clauses, query=query, facts=facts, user=True))
    d1 = {('d1', 1): nf}
    sk('conj', [(F('r', X, Y), conj(call('d1', X), call('u', Y), call('d1', Y)))], ('r', ['any', 'any']), d1)
    sk('ite', [(F('r', X, Y), conj(call('u', X), ('ite', call('d1', X), call('u', Y), eq(Y, C(0)))))], ('r', ['any', 'any']), d1)
    sk('findall', [(F('r', Lq, Y), conj(call('d1', Y), call('findall', X, F('u', X), Lq)))], ('r', ['any', 'any']), d1)
    sk('once', [(F('r', X), conj(call('once', F('u', X)), call('d1', X)))], ('r', ['any']), d1)
    sk('neg', [(F('r', X), conj(call('d1', X), ('not', call('u', X))))], ('r', ['any']), d1)
    sk('rec', [(F('r', X), call('u', X)), (F('r', X), conj(call('d1', Y), call('r', X)))], ('r', ['any']), {('d1', 1): 1})
    return S


def make_body_b(sk, code, cap, info):
    spec = make_spec(sk) + [('strike', 'int', '0 <= strike <= 4'), ('pat', 'int', '0 <= pat <= 2'), ('pkind', 'int', '0 <= pkind <= 2'),
                            ('old', 'int', '50 <= old <= 100000')]
    ix = ch.index_of(spec)
    qname = sk['query'][0]

    def body(vals):
        reg = ch.install_registry(True)
        yp, interp, qb, real_args, ref_args = setup(sk, code, vals, ix)
        state = {'calls': 0}
        strike, pat = vals[ix['strike']], vals[ix['pat']]

        def u(a):
            state['calls'] += 1
            if strike != 0 and state['calls'] == strike:
                raise RecursionError('maximum recursion depth exceeded')
            for r in (1, 2):
                for _ in unify(a, r):
                    yield False

        def ref_u(it, args, s):
            for r in (1, 2):
                s1 = runify(args[0], ('c', r), s)
                if s1 is not None:
                    yield s1
        yp.register_function('u', u)
        interp.foreign[('u', 1)] = ref_u
        interp.max_steps = 300
        try:
            exp = ref_answers(interp, qname, ref_args, cap)
        except (Cyclic, StepLimit, RecursionError):
            return ch.HOLDS_TRIVIAL
        if len(exp) > cap:
            return ch.HOLDS_TRIVIAL
        pc = [0]

        def proj(x):
            pc[0] += 1
            if pat != 0 and pc[0] == pat:
                if vals[ix['pkind']] == 1:
                    raise RuntimeError('projection')
                if vals[ix['pkind']] == 2:
                    raise NotImplementedError('projection')       # a RuntimeError subclass
                raise Private('projection')
            names = {}
            return tuple([show(a, names) for a in real_args])
        stub = SysStub(vals[ix['old']])
        saved = engine.sys
        engine.sys = stub
        escaped = None
        result = None
        q = yp.query(qname, list(real_args))
        try:
            try:
                result = yp.evaluate_bounded(q, proj, 60)
            except Exception as e:
                escaped = e
        finally:
            engine.sys = saved
        if stub.limit != vals[ix['old']]:
            ch.note(info, 'recursion limit not restored')
            return ch.VIOLATED
        if escaped is not None and not isinstance(escaped, Private):
            ch.note(info, 'escaped: %s %s', type(escaped).__name__, str(escaped)[:100])
            return ch.VIOLATED
        for v in reg.items:
            if v._is_bound:
                ch.note(info, 'a variable is still bound after evaluate_bounded (strike at invocation %r, projection fault at %r)', strike, pat)
                return ch.VIOLATED
        if escaped is None:
            if result != exp[:len(result)]:
                ch.note(info, 'result %r is not a prefix of the reference answers %r', result, exp)
                return ch.VIOLATED
            if strike == 0 and pat == 0 and result != exp:
                ch.note(info, 'result %r differs from the reference answers %r although nothing struck', result, exp)
                return ch.VIOLATED
        return ch.HOLDS_NONTRIVIAL if (strike != 0 or pat != 0) and exp else ch.HOLDS_TRIVIAL
    return spec, body


def make_body_c(info):
    """C17.c: the recursion limit striking INSIDE a term unification.  A foreign IUnifiable term ("probe") stands as a later
    argument of the query; its unification raises RecursionError at a symbolic invocation, i.e. inside unify_arrays while the
    unification of an earlier argument is suspended with its binding in place."""
    spec = [('strike', 'int', '0 <= strike <= 4'), ('c0', 'int', None), ('c1', 'int', None), ('c2', 'int', None), ('nf', 'int', '0 <= nf <= 3'),
            ('qvar', 'bool', None), ('qc', 'int', None), ('pos', 'int', '0 <= pos <= 1'), ('old', 'int', '50 <= old <= 100000')]
    ix = ch.index_of(spec)

    def body(vals):
        from yldprolog.engine import IUnifiable, get_value
        reg = ch.install_registry(True)
        yp = ch.new_engine()
        strike, nf, pos = vals[ix['strike']], vals[ix['nf']], vals[ix['pos']]
        consts = [vals[ix['c0']], vals[ix['c1']], vals[ix['c2']]]
        state = {'calls': 0}

        class Probe(IUnifiable):
            def get_value(self):
                return self

            def to_python(self):
                return 'probe'

            def unify(self, other):
                state['calls'] += 1
                if strike != 0 and state['calls'] == strike:
                    raise RecursionError('maximum recursion depth exceeded')
                yield False
        i = 0
        while i < 3:
            if i < nf:
                # item(c_i, _, _): the probe meets an unbound variable of the stored fact
                yp.assert_fact(yp.atom('item'), [consts[i], yp.variable(), yp.variable()])
            i += 1
        x = yp.variable() if vals[ix['qvar']] else vals[ix['qc']]
        probe = Probe()
        y = yp.variable()
        args = [x, probe, y] if pos == 0 else [x, y, probe]
        # expected: facts whose first argument unifies with x, in order, until the strike-th probe unification
        exp = []
        seen = 0
        struck = False
        i = 0
        while i < 3 and not struck:
            if i < nf and (vals[ix['qvar']] or consts[i] == vals[ix['qc']]):
                seen += 1
                if strike != 0 and seen == strike:
                    struck = True
                else:
                    exp.append(consts[i])
            i += 1
        stub = SysStub(vals[ix['old']])
        saved = engine.sys
        engine.sys = stub
        escaped = None
        result = None
        q = yp.query('item', args)
        try:
            try:
                result = yp.evaluate_bounded(q, lambda _: get_value(x), 60)
            except Exception as e:
                escaped = e
        finally:
            engine.sys = saved
        if stub.limit != vals[ix['old']]:
            ch.note(info, 'recursion limit not restored')
            return ch.VIOLATED
        if escaped is not None:
            ch.note(info, 'escaped: %s %s', type(escaped).__name__, str(escaped)[:100])
            return ch.VIOLATED
        for v in reg.items:
            if v._is_bound:
                ch.note(info, 'a variable is still bound after evaluate_bounded returned (strike inside unify_arrays at probe unification %r)', strike)
                return ch.VIOLATED
        if result != exp:
            ch.note(info, 'result %r differs from the expected prefix %r', result, exp)
            return ch.VIOLATED
        return ch.HOLDS_NONTRIVIAL if struck else ch.HOLDS_TRIVIAL
    return spec, body


class NativeValidation(DirectUnit):
    """real recursion limits on a deep and a left-recursive program (validates the strike stub)"""

    def run(self):
        from yldprolog.engine import YP
        from vlib.control import _compile
        src = ("nat(z).\nnat(s(X)) :- nat(X).\n"
               "deep(0, done).\ndeep(s(N), R) :- deep(N, R).\n"
               "left(X) :- left(X).\nleft(a).\n")
        code = _compile(src)
        cases = 0
        problems = []
        for limit in (60, 90, 130, 200):
            yp = YP()
            yp.load_script_from_string(code)
            before = _realsys.getrecursionlimit()
            Xv = yp.variable()
            for goal in ('nat', 'left'):
                r = yp.evaluate_bounded(yp.query(goal, [Xv]), lambda x: ch_depth(Xv))
                cases += 1
                if _realsys.getrecursionlimit() != before:
                    problems.append('limit not restored after %s/%d' % (goal, limit))
                if Xv._is_bound:
                    problems.append('variable bound after %s/%d' % (goal, limit))
                if goal == 'nat' and r != list(range(len(r))):
                    problems.append('nat answers %r are not a prefix of 0,1,2,...' % (r[:5],))
                if goal == 'left' and r != []:
                    problems.append('left-recursive search returned %r' % (r[:3],))
        if problems:
            return dict(verdict='harness_error', detail='native validation of the strike stub failed: ' + '; '.join(problems))
        return dict(verdict='discharged', state='VALIDATION', nontrivial=cases, solver_queries=0,
                    validation=dict(kind='native validation (not a solver verdict)', cases=cases))


def ch_depth(v):
    from yldprolog.engine import to_python
    t = to_python(v)
    n = 0
    while isinstance(t, tuple):
        n += 1
        t = t[1][0]
    return n


def units(tier, seed):
    us = []
    for skind in range(4):
        us.append(dict(id='a.control.source-kind%d' % skind, kind='a', fixed={'skind': skind}, ob='C17.a',
                       timeout=200, weight=30, bounds='source raises kind %d (0 none, 1 RecursionError, 2 RuntimeError, 3 private) at symbolic index; '
                                                       'projection fault kind/index and both limits symbolic' % skind))
    nf = 2 if tier == 'quick' else 3
    for sk in skeletons(nf):
        for pat in (0, 1, 2):
            us.append(dict(id='b.%s.projfault%d' % (sk['name'], pat), kind='b', skeleton=sk['name'], nf=nf, fixed={'pat': pat},
                           quick=(tier == 'quick'), ob='C17.b', timeout=300 if tier == 'quick' else 1500, weight=60, cap=8,
                           bounds='skeleton %s, <=%d facts, strike at user-predicate invocation 0..4, projection raising at answer %d (0=never)'
                                  % (sk['name'], nf, pat)))
    for pos in (0, 1):
        us.append(dict(id='c.strike-in-unify.pos%d' % pos, kind='c', fixed={'pos': pos}, ob='C17.c', timeout=300, weight=30,
                       bounds='<=3 dynamic facts item(c,_,_) with symbolic int constants, query first argument a variable or a symbolic int, '
                              'foreign term at argument %d whose unification raises RecursionError at invocation 0(never)..4' % (pos + 1)))
    us.append(dict(id='v.native-limits', kind='v', fixed={}, ob='validation', timeout=120, weight=10,
                   bounds='native: limits 60..200 on nat/1 (infinitely many answers) and a left-recursive predicate'))
    return us


def build(u):
    info = {}
    if u['kind'] == 'v':
        return NativeValidation()
    if u['kind'] == 'c':
        spec, body = make_body_c(info)
        return ch.harness_from_spec(u['id'], spec, u['fixed'], body, info=info)
    if u['kind'] == 'a':
        spec, body = make_body_a(info)
        return ch.harness_from_spec(u['id'], spec, u['fixed'], body, info=info)
    sk = [s for s in skeletons(u['nf']) if s['name'] == u['skeleton']][0]
    src, code, fail = compile_skeleton(sk)
    if fail is not None:
        return fail
    info['source'] = src
    spec, body = make_body_b(sk, code, u['cap'], info)
    extra = []
    if u.get('quick'):
        extra = ['%s <= 2' % p[0] for p in spec if p[0] == 'm0'] + ['%s == 0' % p[0] for p in spec if p[0] == 'm1']
    return ch.harness_from_spec(u['id'], spec, u['fixed'], body, extra_pre=extra, info=info)
