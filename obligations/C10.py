"""C10 - text outside the grammar is rejected, never partially compiled.

The ANTLR runtime cannot be executed symbolically (DESIGN 1.6), so the property is decided
at the compiler DRIVER against a contract-stubbed front end, and the stub's contract is
validated natively against an independent recogniser derived from prolog.g4.

Ob C10.a (CrossHair): compiler._compile_prolog_from_stream / compile_prolog_from_string
with prologLexer / CommonTokenStream / prologParser replaced by FrontEndStub.  Symbolic: the
number of lexer errors (0..2) and parser errors (0..2) the front end reports - with
symbolic line, column and message - to whatever listeners the driver installed, and whether
the token after program() is EOF.  Property: the driver raises iff (errors > 0 or not at
EOF); otherwise it returns exactly the code of the whole (valid) tree.  A counterexample
is replayed END-TO-END with a witness text of the same class through the real front end.
Ob C10.b (native validation + corruption search, not a solver verdict): vlib.g4 derives a
longest-match lexer and an Earley recogniser from prolog.g4 (nothing of ANTLR); on the
repository's sample programs, a generated corpus and ALL single-token edits of them
(deletion, insertion, duplication, swap, truncation, foreign characters), every
non-sentence must make compile_prolog_from_string raise, and for every accepted text the
set of name/arity definitions in the output equals the clause heads of the input.
"""
import random
import re

import antlr4
from antlr4.error.ErrorStrategy import BailErrorStrategy, DefaultErrorStrategy
from antlr4.error.Errors import ParseCancellationException
from antlr4.Token import Token

from vlib import ch, g4
from vlib.control import Ctx
import yldprolog.compiler as compiler

PROPERTY = 'C10'
FUNCTIONS = ['compiler._compile_prolog_from_stream', 'compiler.compile_prolog_from_string', 'compiler._RaisingErrorListener (or whatever the driver installs)',
             'errors.CompilerError', 'yp_prolog_visitor.YPPrologVisitor (on the fixed valid tree)', 'yp_generator (on the fixed valid tree)']
STUBS = ['FrontEndStub for prologLexer / CommonTokenStream / prologParser inside yldprolog.compiler: reports a symbolic number of lexer and parser '
         'syntax errors (symbolic line, column, message) to the listeners the driver installed, honours a BailErrorStrategy, returns a fixed valid '
         'parse tree and leaves a next token that is EOF or not']
ASSUMPTIONS = ['contract of the real front end (validated natively by C10.b on every run): every non-sentence produces at least one reported lexer or '
               'parser error or leaves a non-EOF token; a sentence produces none']
OUTSIDE = ['the language accepted by the generated parser as a solver claim (it is only validated on the corpus and its single-token edits)']
BOUNDS = {'quick': 'C10.a: 0..2 lexer errors x 0..2 parser errors x EOF/not, symbolic positions and messages (len<=3); C10.b: repository samples + generated corpus, '
                   'all single-token deletions/duplications/swaps/truncations and seeded insertions/foreign characters',
          'thorough': 'C10.b with a larger generated corpus'}
EXPLANATION = ('CrossHair executes the real compiler driver against a front-end stub whose error reports and end-of-input state are symbolic; the driver '
               'must raise exactly when the front end reported anything or stopped before EOF. The stub contract and the end-to-end behaviour on '
               'corrupted texts are validated natively with a recogniser derived from prolog.g4')

VALID_TEXT = "foo(a).\nbar(X) :- foo(X), \\+ baz(X, [1,2|T]).\n"
WITNESS = {'lexer': "foo(a). $", 'parser': "a(X) :- b(X),, c(X).", 'eof': "foo(a). ) garbage"}


class _Tok:
    def __init__(self, type_, text):
        self.type = type_
        self.text = text
        self.line = 1
        self.column = 7
        self.tokenIndex = 3
        self.start = 7
        self.stop = 7


class _Console:
    def syntaxError(self, *a):
        pass


def make_stubs(script, tree):
    """script: dict(nlex, npar, eof, lines, cols, msgs)"""
    class StubRecognizer:
        def __init__(self, *a, **k):
            self._listeners = [_Console()]
            self._syntaxErrors = 0

        def removeErrorListeners(self):
            self._listeners = []

        def addErrorListener(self, l):
            self._listeners.append(l)

        def removeErrorListener(self, l):
            self._listeners = [x for x in self._listeners if x is not l]

        def getErrorListenerDispatch(self):
            return antlr4.error.ErrorListener.ProxyErrorListener(self._listeners)

        def _report(self, k):
            for l in list(self._listeners):
                l.syntaxError(self, None, script['lines'][k], script['cols'][k], script['msgs'][k], script['excs'][k]())

    class StubLexer(StubRecognizer):
        def __init__(self, inp=None, *a, **k):
            StubRecognizer.__init__(self)
            self.inputStream = inp
            self.reported = False

        def lex_all(self):
            if not self.reported:
                self.reported = True
                for k in range(2):
                    if k < script['nlex']:
                        self._report(k)

    class StubStream:
        def __init__(self, lexer, *a, **k):
            self.lexer = lexer
            self.tokenSource = lexer
            self.index = 0

        def fill(self):
            self.lexer.lex_all()

        def LT(self, k):
            self.lexer.lex_all()
            return _Tok(Token.EOF, '<EOF>') if script['eof'] else _Tok(8, ')')

        def LA(self, k):
            return self.LT(k).type

        def get(self, i):
            return self.LT(1)

        def getText(self, *a):
            return VALID_TEXT

    class StubParser(StubRecognizer):
        def __init__(self, stream, *a, **k):
            StubRecognizer.__init__(self)
            self._input = stream
            self._errHandler = DefaultErrorStrategy()
            self.buildParseTrees = True

        def program(self):
            self._input.lexer.lex_all()
            for k in range(2):
                if k < script['npar']:
                    self._syntaxErrors += 1
                    if isinstance(self._errHandler, BailErrorStrategy):
                        raise ParseCancellationException('bail')
                    self._report(2 + k)
            return tree

        def getNumberOfSyntaxErrors(self):
            return self._syntaxErrors

        def getTokenStream(self):
            return self._input

        def getInputStream(self):
            return self._input

        def getCurrentToken(self):
            return self._input.LT(1)
    return StubLexer, StubStream, StubParser


class _CharStream:
    """input stream as seen from an exception object: the next character is EOF or not"""

    def __init__(self, at_eof):
        self.at_eof = at_eof
        self.index = 5

    def LA(self, k):
        return Token.EOF if self.at_eof else ord(')')

    def getText(self, a, b):
        return "'x"


def make_exc(lexer_error, present, at_eof):
    """the exception object ANTLR hands to syntaxError: None (inline repairs) or a recognition exception whose
    input is at EOF or not (e.g. an unterminated quoted atom fails at EOF)"""
    from antlr4.error.Errors import LexerNoViableAltException, InputMismatchException, RecognitionException
    if not present:
        return None
    stream = _CharStream(True if at_eof else False)
    if lexer_error:
        return LexerNoViableAltException(None, stream, 3, None)
    e = RecognitionException(message='mismatched input', recognizer=None, input=stream, ctx=None)
    return e


def parse_valid():
    from yldprolog.prologLexer import prologLexer
    from yldprolog.prologParser import prologParser
    lexer = prologLexer(antlr4.InputStream(VALID_TEXT))
    parser = prologParser(antlr4.CommonTokenStream(lexer))
    return parser.program()


def make_body_a(info):
    tree = parse_valid()
    expected = compiler.compile_prolog_from_string(VALID_TEXT, Ctx)
    spec = [('nlex', 'int', '0 <= nlex <= 2'), ('npar', 'int', '0 <= npar <= 2'), ('eof', 'bool', None), ('via_string', 'bool', None)]
    for k in range(4):
        spec += [('line%d' % k, 'int', '1 <= line%d' % k), ('col%d' % k, 'int', '0 <= col%d' % k), ('msg%d' % k, 'str', 'len(msg%d) <= 3' % k),
                 ('exc%d' % k, 'bool', None), ('ateof%d' % k, 'bool', None)]
    ix = ch.index_of(spec)

    def body(vals):
        from crosshair.tracers import is_tracing
        g = lambda k: vals[ix[k]]
        script = dict(nlex=g('nlex'), npar=g('npar'), eof=g('eof'), lines=[g('line%d' % k) for k in range(4)],
                      cols=[g('col%d' % k) for k in range(4)], msgs=[g('msg%d' % k) for k in range(4)],
                      excs=[(lambda k: (lambda: make_exc(k < 2, g('exc%d' % k), g('ateof%d' % k))))(k) for k in range(4)])
        SL, SS, SP = make_stubs(script, tree)
        saved = (compiler.prologLexer, compiler.CommonTokenStream, compiler.prologParser)
        compiler.prologLexer, compiler.CommonTokenStream, compiler.prologParser = SL, SS, SP
        raised = None
        out = None
        try:
            try:
                if g('via_string'):
                    out = compiler.compile_prolog_from_string(VALID_TEXT, Ctx)
                else:
                    out = compiler._compile_prolog_from_stream(antlr4.InputStream(VALID_TEXT), Ctx)
            except Exception as e:
                raised = e
        finally:
            compiler.prologLexer, compiler.CommonTokenStream, compiler.prologParser = saved
        must_raise = script['nlex'] > 0 or script['npar'] > 0 or not script['eof']
        if must_raise and raised is None:
            cls = 'lexer' if script['nlex'] > 0 else ('parser' if script['npar'] > 0 else 'eof')
            if not is_tracing():
                # end-to-end confirmation through the real front end with a witness of the same class
                try:
                    compiler.compile_prolog_from_string(WITNESS[cls], Ctx)
                    info['reason'] = ('the driver returned code although the front end reported %d lexer / %d parser errors, at EOF: %r; '
                                      'end-to-end witness %r compiles without an exception' % (script['nlex'], script['npar'], script['eof'], WITNESS[cls]))
                except Exception as e:
                    info['reason'] = 'stub-level violation does not reproduce end-to-end: %r raises %s' % (WITNESS[cls], type(e).__name__)
                    info['not_end_to_end'] = True
                    return ch.HOLDS_TRIVIAL
            return ch.VIOLATED
        if not must_raise:
            if raised is not None:
                ch.note(info, 'the driver raised %s on error-free, fully consumed input', type(raised).__name__)
                return ch.VIOLATED
            if out != expected:
                ch.note(info, 'code returned for the valid tree differs from the library result')
                return ch.VIOLATED
            return ch.HOLDS_NONTRIVIAL
        return ch.HOLDS_NONTRIVIAL
    return spec, body


# ---------------- C10.b --------------------------------------------------------------------
def corpus(seed, n_generated):
    import glob
    texts = []
    for f in sorted(glob.glob('/repo/tests/data/*.prolog') + glob.glob('/repo/compiler/test/*.prolog')):
        t = open(f, encoding='utf8').read()
        if len(t) < 700:
            texts.append(t)
    texts += ["foo(a).", "a(X) :- b(X), c(X).", "p :- \\+ q, (r ; s -> t).", "l([H|T], 'it\\'s') :- m(T, [1,2,3], _).",
              "x(Y) :- Y = f(Z), Z \\= 3, !.\n% comment\n", "foo(a).\n% second fact\rbar(b).\nbaz(c).\n", "a.\r% c1\r\nb.\r% c2\rc.\n", ":- foo.\nbar(- 1, +(a)).", "t(X) :- X == a ; X > 1.", "v('a\\'b', []).", ""]
    rng = random.Random(77 + seed)
    atoms = ['a', 'foo', 'b_1', "'q r'", '12', '[]']
    vars_ = ['X', 'Y', '_', 'Tail']

    def term(d):
        r = rng.random()
        if d <= 0 or r < 0.35:
            return rng.choice(atoms[:5] + vars_)
        if r < 0.6:
            return '%s(%s)' % (rng.choice(['f', 'g', 'foo']), ','.join(term(d - 1) for _ in range(rng.randint(1, 3))))
        if r < 0.75:
            return '[%s]' % ','.join(term(d - 1) for _ in range(rng.randint(0, 3)))
        if r < 0.85:
            return '[%s|%s]' % (','.join(term(d - 1) for _ in range(rng.randint(1, 2))), rng.choice(vars_))
        return '%s %s %s' % (term(d - 1), rng.choice(['=', '\\=', '<', '>=']), term(d - 1))

    def goal(d):
        r = rng.random()
        if d <= 0 or r < 0.4:
            return rng.choice(['true', 'fail', '!']) if rng.random() < 0.2 else '%s(%s)' % (rng.choice(['p', 'q', 'r']), term(1))
        if r < 0.6:
            return '%s, %s' % (goal(d - 1), goal(d - 1))
        if r < 0.7:
            return '(%s ; %s)' % (goal(d - 1), goal(d - 1))
        if r < 0.85:
            return '(%s -> %s ; %s)' % (goal(d - 1), goal(d - 1), goal(d - 1))
        return '\\+ %s' % goal(0)
    for _ in range(n_generated):
        head = '%s(%s)' % (rng.choice(['h', 'k']), ','.join(term(2) for _ in range(rng.randint(0, 2)))) if rng.random() < 0.85 else 'z'
        texts.append(head + '.' if rng.random() < 0.3 else '%s :- %s.' % (head, goal(2)))
    return texts


def edits(text, toks, rng, n_insert):
    """single-token corruptions of text (tokens with positions from the g4 lexer)"""
    out = []
    spans = [(p, p + len(l)) for _, l, p in toks]
    for i, (a, b) in enumerate(spans):
        out.append(('delete', text[:a] + text[b:]))
        out.append(('duplicate', text[:b] + ' ' + text[a:b] + text[b:]))
        out.append(('truncate', text[:a]))
        if i + 1 < len(spans):
            c, d = spans[i + 1]
            out.append(('swap', text[:a] + text[c:d] + text[b:c] + text[a:b] + text[d:]))
    pool = ['.', ',', ')', '(', ':-', ';', '->', '|', ']', '[', 'foo', 'X', '1', "'", '$', '#', '\\', '"', '?', '{', 'é', "'abc", '%x', '!']
    # changes confined to the ends of the text (a final line break is what ends a comment; these characters are not in the lexicon)
    out.append(('rstrip', text.rstrip()))
    out.append(('strip', text.strip()))
    for ch_ in ('\x0c', '\xa0', '\u2028', '\x85', '\x1c'):
        out.append(('append-char', text + ch_))
        out.append(('prepend-char', ch_ + text))
    for _ in range(n_insert):
        if spans:
            pos = rng.choice([0, len(text)] + [a for a, b in spans] + [b for a, b in spans])
        else:
            pos = 0
        tok = rng.choice(pool)
        out.append(('insert', text[:pos] + ' ' + tok + ' ' + text[pos:]))
    # every pool token at every clause boundary (start, end, after each full stop), with and without a separating blank
    boundaries = [0, len(text)] + [b for (name, l, p), (a, b) in zip(toks, spans) if name == "'.'"]
    for pos in sorted(set(boundaries)):
        for tok in pool:
            out.append(('insert-at-boundary', text[:pos] + ' ' + tok + ' ' + text[pos:]))
            if pos == len(text):
                out.append(('append', text + tok))
    return out


_DEF = re.compile(r'^def (\w+)_(\d+)\(', re.M)


class CorruptionSearch(ch.DirectUnit):
    def __init__(self, u):
        self.u = u
        self.info = {}

    def check_text(self, text, lexer):
        """None if fine, else a reason"""
        sentence = g4.is_sentence(text, lexer)
        try:
            code = compiler.compile_prolog_from_string(text, Ctx)
            raised = None
        except RecursionError:
            return None
        except Exception as e:
            code, raised = None, e
        if not sentence and raised is None:
            return 'text outside the grammar compiled without an exception'
        if raised is None:
            # whole input compiled: one definition per clause head
            toks = lexer.tokenize(text)
            heads = self.heads(toks)
            defs = set((m.group(1), int(m.group(2))) for m in _DEF.finditer(code))
            if heads is not None and defs != heads:
                return 'definitions in the output %r differ from the clause heads of the input %r' % (sorted(defs), sorted(heads))
        return None

    def heads(self, toks):
        """name/arity of every clause head of a SENTENCE, from its token list (plain ATOM heads only; None if unsure)"""
        out = set()
        i = 0
        n = len(toks)
        while i < n:
            # one clause or directive up to the '.' at bracket depth 0
            j = i
            depth = 0
            while j < n and not (toks[j][0] == "'.'" and depth == 0):
                if toks[j][0] in ("'('", 'LBRACK'):
                    depth += 1
                elif toks[j][0] in ("')'", 'RBRACK'):
                    depth -= 1
                j += 1
            clause = toks[i:j]
            i = j + 1
            if not clause or clause[0][0] == "':-'":
                continue
            if clause[0][0] != 'ATOM':
                return None
            name = clause[0][1]
            if len(clause) > 1 and clause[1][0] == "'('":
                depth, k, arity, empty = 0, 1, 1, True
                while k < len(clause):
                    t = clause[k][0]
                    if t in ("'('", 'LBRACK'):
                        depth += 1
                    elif t in ("')'", 'RBRACK'):
                        depth -= 1
                        if depth == 0:
                            break
                    elif t == "','" and depth == 1:
                        arity += 1
                    if depth >= 1 and k > 1:
                        empty = False
                    k += 1
                if k + 1 < len(clause) and clause[k + 1][0] not in ("':-'",):
                    return None       # head is an operator term such as  a(X) = b
                out.add((name, 0 if empty else arity))
            else:
                if len(clause) > 1 and clause[1][0] != "':-'":
                    return None
                out.add((name, 0))
        return out

    def run(self):
        lexer = g4.Lexer()
        rng = random.Random(5 + self.u['seed'])
        texts = corpus(self.u['seed'], self.u['n_generated'])
        cases = 0
        nonsent = 0
        for base in texts:
            if not g4.is_sentence(base, lexer):
                return dict(verdict='harness_error', detail='corpus text is not a sentence of the grammar: %r' % base[:80])
            toks = lexer.tokenize(base)
            variants = [('original', base)] + edits(base, toks, rng, self.u['n_insert'])
            for kind, text in variants:
                cases += 1
                why = self.check_text(text, lexer)
                if not g4.is_sentence(text, lexer):
                    nonsent += 1
                if why:
                    self.info['reason'] = why
                    return dict(verdict='violated', counterexample={'text': text, 'edit': kind}, message=why, state='CORRUPTION',
                                replay=dict(native_result=2, info={'reason': why, 'edit': kind}))
        return dict(verdict='discharged', state='VALIDATION', paths=0, nontrivial=nonsent, solver_queries=cases,
                    validation=dict(kind='native corruption search against the g4-derived recogniser (not a solver verdict)',
                                    corpus_texts=len(texts), cases=cases, non_sentences=nonsent),
                    sample=dict(corpus_example=texts[-1], cases=cases, non_sentences=nonsent))

    def run_native(self, args):
        why = self.check_text(args['text'], g4.Lexer())
        self.info['reason'] = why
        return 2 if why else 0


def units(tier, seed):
    us = []
    for nlex in range(3):
        for npar in range(3):
            us.append(dict(id='a.driver.nlex%d.npar%d' % (nlex, npar), kind='a', fixed={'nlex': nlex, 'npar': npar}, ob='C10.a', timeout=300, weight=40,
                           bounds='%d lexer errors, %d parser errors, EOF or not, both entry points; positions/messages symbolic' % (nlex, npar)))
    ngen = 40 if tier == 'quick' else 400
    parts = 8 if tier == 'quick' else 16
    for part in range(parts):
        us.append(dict(id='b.corruptions.part%d' % part, kind='b', seed=seed * 100 + part, n_generated=ngen // parts, n_insert=6,
                       part=part, parts=parts, fixed={}, ob='C10.b', timeout=600, weight=30,
                       bounds='repository samples (slice %d/%d) + %d generated clauses, all single-token edits' % (part, parts, ngen // parts)))
    return us


def build(u):
    if u['kind'] == 'b':
        cs = CorruptionSearch(u)
        # every part handles its slice of the repository samples plus its own generated clauses
        orig = corpus

        def sliced(seed, n):
            texts = orig(seed, n)
            fixed, gen = texts[:len(texts) - n], texts[len(texts) - n:]
            return [t for i, t in enumerate(fixed) if i % u['parts'] == u['part']] + gen
        cs_corpus = sliced
        globals()['corpus_for_unit'] = cs_corpus
        cs.run = _bind_run(cs, cs_corpus)
        return cs
    info = {}
    spec, body = make_body_a(info)
    return ch.harness_from_spec(u['id'], spec, u['fixed'], body, info=info)


def _bind_run(cs, corpus_fn):
    def run():
        global corpus
        saved = corpus
        corpus = corpus_fn
        try:
            return CorruptionSearch.run(cs)
        finally:
            corpus = saved
    return run
