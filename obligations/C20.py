"""C20 - Python predicates are interchangeable with compiled ones.

Ob C20.a: caller programs (skeleton family F20: conjunction, before/after a cut,
condition/then/else, under \\+, via call/once/findall, next to dynamic facts) over two
fact predicates p/1 and q/2.  Each fact predicate exists twice: as compiled Prolog facts
and as a Python generator over the same table registered with register_function.
Symbolic: the subset of {p, q} that is Python, the registration style of each
(inferred / explicit / variadic arity), the value of EVERY yield (symbolic bools), the
query argument modes and constants, a dynamic fact for p/1 (present or not, symbolic
value), and the invocation at which a Python predicate raises a private exception.
Oracle: differential - the engine in which everything is compiled.
"""
from vlib import ch
from vlib.refprolog import program_text
from vlib.control import _compile
from vlib.sld import V, A, C, F, L, NIL, call, conj, eq, neq, TRUE, FAIL, CUT, QueryBuilder, NMODES
from vlib.refprolog import Interp
from vlib.terms import show
from yldprolog.engine import unify, IUnifiable

PROPERTY = 'C20'
FUNCTIONS = ['engine.YP.register_function', 'engine.YP.query', 'engine.YP.call', 'engine.YP.once', 'engine.YP.findall',
             'engine.YP.builtin_neq', 'engine.YP.match_dynamic', 'engine.YP._match_all_clauses',
             'generated code of the caller skeletons (loops over query(), cut, if-then-else protocol)']
STUBS = ['Python fact predicates: generators that unify their arguments with the rows of the same table the compiled facts hold, '
         'yield a symbolic bool per solution, and raise a private exception at a symbolic invocation']
ASSUMPTIONS = ['the Python predicate behaves as documented: unifies its arguments, yields once per solution']
OUTSIDE = ['programs outside the listed caller family', 'tables other than the fixed ones']
BOUNDS = {'quick': '9 caller skeletons; tables p = 1,2,1 and q = (1,2),(2,2),(3,1); 4 subsets x 3x3 registration styles; <=8 symbolic yield values; '
                   'query modes symbolic; optional dynamic fact; raise at invocation 0(never)..3',
          'thorough': 'same, partitioned on the subset mask and styles'}
EXPLANATION = ('CrossHair executes the same symbolic query on two engines - all predicates compiled vs a symbolic subset registered as Python '
               'generators with symbolic yield values and registration styles - and compares the answer sequences on every path; with an '
               'injected exception the very same exception object must reach the consumer after a prefix of the answers')
P_ROWS = [1, 2, 1]
Q_ROWS = [(1, 2), (2, 2), (3, 1)]
X, Y, Z, Lq = V('X'), V('Y'), V('Z'), V('L')


class Boom(Exception):
    pass


def callers():
    S = []

    def sk(name, clauses, query):
        S.append(dict(name=name, clauses=clauses, query=query))
    sk('conj', [(F('t', X, Y), conj(call('p', X), call('q', X, Y)))], ('t', ['any', 'any']))
    sk('cutafter', [(F('t', X), conj(call('p', X), CUT)), (F('t', C(0)), TRUE)], ('t', ['any']))
    sk('cutbefore', [(F('t', X, Y), conj(call('q', X, Y), CUT, call('p', X))), (F('t', C(0), C(0)), TRUE)], ('t', ['any', 'any']))
    sk('ite', [(F('t', X, Y), ('ite', call('p', X), call('q', X, Y), call('q', Y, X)))], ('t', ['any', 'any']))
    sk('itecond', [(F('t', X, Y), conj(call('q', X, Y), ('ite', call('p', Y), eq(Z, A('yes')), eq(Z, A('no')))))], ('t', ['any', 'any']))
    sk('neg', [(F('t', X, Y), conj(call('q', X, Y), ('not', call('p', X))))], ('t', ['any', 'any']))
    sk('metacall', [(F('t', X, Y), conj(call('call', A('p'), X), call('once', F('q', X, Y))))], ('t', ['any', 'any']))
    sk('findall', [(F('t', Lq, Y), conj(call('p', Y), call('findall', X, F('q', X, Y), Lq)))], ('t', ['any', 'any']))
    sk('disj', [(F('t', X), ('or', call('p', X), call('q', X, X)))], ('t', ['any']))
    return S


def facts_text():
    ptxt = ''.join('p(%d).\n' % r for r in P_ROWS)
    qtxt = ''.join('q(%d,%d).\n' % r for r in Q_ROWS)
    return ptxt, qtxt


NY = 8


def make_body(sk, info):
    code_callers = _compile(program_text(sk['clauses']))
    ptxt, qtxt = facts_text()
    code_p, code_q = _compile(ptxt), _compile(qtxt)
    for c in (code_callers, code_p, code_q):
        compile(c, 'gen', 'exec')
    info['source'] = program_text(sk['clauses'])
    nargs = len(sk['query'][1])
    spec = [('pyp', 'bool', None), ('pyq', 'bool', None), ('stp', 'int', '0 <= stp <= 2'), ('stq', 'int', '0 <= stq <= 2')]
    spec += [('y%d' % i, 'bool', None) for i in range(NY)]
    for k in range(nargs):
        spec += [('m%d' % k, 'int', '0 <= m%d <= %d' % (k, NMODES - 1)), ('a%d' % k, 'int', None)]
    spec += [('dyn', 'bool', None), ('dv', 'int', None), ('boom', 'int', '0 <= boom <= 3'), ('early', 'bool', None), ('prep', 'bool', None)]
    ix = ch.index_of(spec)

    def body(vals):
        ch.install_registry(False)
        g = lambda k: vals[ix[k]]
        yields = [g('y%d' % i) for i in range(NY)]
        state = {'ny': 0, 'calls': 0, 'exc': None}
        boom = g('boom')

        def next_yield():
            v = yields[state['ny'] % NY]
            state['ny'] += 1
            return v

        def enter():
            state['calls'] += 1
            if boom != 0 and state['calls'] == boom:
                state['exc'] = Boom('injected at invocation %d' % state['calls'])
                raise state['exc']

        def p_fixed(a):
            enter()
            for r in P_ROWS:
                for _ in unify(a, r):
                    yield next_yield()

        def p_var(*args):
            enter()
            for r in P_ROWS:
                for _ in unify(args[0], r):
                    yield next_yield()

        def q_fixed(a, b):
            enter()
            for r in Q_ROWS:
                if g('prep'):
                    # another legitimate way to write it: both unifications are created first and nested afterwards
                    ga, gb = unify(a, r[0]), unify(b, r[1])
                    for _ in ga:
                        for _ in gb:
                            yield next_yield()
                else:
                    for _ in unify(a, r[0]):
                        for _ in unify(b, r[1]):
                            yield next_yield()

        def q_var(*args):
            enter()
            for r in Q_ROWS:
                for _ in unify(args[0], r[0]):
                    for _ in unify(args[1], r[1]):
                        yield next_yield()

        def make(pyp, pyq):
            yp = ch.new_engine()
            ch.load(yp, code_callers)
            if g('early'):
                # the query is issued once BEFORE the fact predicates exist (unknown predicates just fail);
                # definitions supplied afterwards must be picked up all the same (late binding)
                early_args = [yp.variable() for _ in range(nargs)]
                for _ in yp.query(sk['query'][0], early_args):
                    pass
            if pyp:
                st = g('stp')
                if st == 0:
                    yp.register_function('p', p_fixed)
                elif st == 1:
                    yp.register_function('p', p_fixed, arity=1)
                else:
                    yp.register_function('p', p_var, arity=-1)
            else:
                ch.load(yp, code_p)
            if pyq:
                st = g('stq')
                if st == 0:
                    yp.register_function('q', q_fixed)
                elif st == 1:
                    yp.register_function('q', q_fixed, arity=2)
                else:
                    yp.register_function('q', q_var, arity=-1)
            else:
                ch.load(yp, code_q)
            if g('dyn'):
                yp.assert_fact(yp.atom('p'), [g('dv')])
            return yp

        def run(yp):
            qb = QueryBuilder(yp, Interp([]))
            args = [qb.any(g('m%d' % k), g('a%d' % k))[0] for k in range(nargs)]
            out = []
            q = yp.query(sk['query'][0], args)
            try:
                for _ in q:
                    names = {}
                    out.append(tuple([show(a, names) for a in args]))
                    if len(out) > 12:
                        break
            finally:
                q.close()
            return out, qb
        pyp, pyq = g('pyp'), g('pyq')
        saved_boom = boom
        # oracle: everything compiled (never raises)
        try:
            exp, _ = run(make(False, False))
        except Exception as e:
            ch.note(info, 'the all-compiled engine raised %s: %s', type(e).__name__, str(e)[:150])
            return ch.VIOLATED
        yp = make(pyp, pyq)
        raised = None
        got = []
        qb = None
        try:
            got, qb = run(yp)
        except Boom as e:
            raised = e
        except Exception as e:
            ch.note(info, 'query raised %s: %s', type(e).__name__, str(e)[:150])
            return ch.VIOLATED
        if state['exc'] is not None:
            if raised is not state['exc']:
                ch.note(info, 'the exception raised inside the Python predicate did not reach the consumer unchanged (%r)', raised)
                return ch.VIOLATED
            return ch.HOLDS_NONTRIVIAL
        if got != exp:
            ch.note(info, 'answers with Python predicates (p:%r q:%r) %r differ from the all-compiled engine %r', pyp, pyq, got, exp)
            return ch.VIOLATED
        for v, _ in qb.rvars:
            if v._is_bound:
                ch.note(info, 'query variable still bound')
                return ch.VIOLATED
        return ch.HOLDS_NONTRIVIAL if ((pyp or pyq) and exp) else ch.HOLDS_TRIVIAL
    return spec, body


def units(tier, seed):
    us = []
    for sk in callers():
        nargs = len(sk['query'][1])
        masks = [(True, True), (True, False), (False, True)]
        if tier == 'quick':
            parts = [{'boom': 0, 'pyp': pp, 'pyq': pq, 'early': False, 'prep': (pq and not pp)} for pp, pq in masks]
            parts += [{'boom': 0, 'pyp': True, 'pyq': True, 'early': True, 'dyn': False, 'prep': False}]
            parts += [{'boom': b, 'stp': 0, 'stq': 2, 'early': False, 'prep': False} for b in (1, 2)]
        else:
            parts = [{'boom': b, 'pyp': pp, 'pyq': pq} for b in range(4) for pp, pq in masks]
        for fx in parts:
            tag = ''.join('.%s%d' % (k, int(v)) for k, v in sorted(fx.items()))
            us.append(dict(id='a.%s%s' % (sk['name'], tag), skeleton=sk['name'], fixed=fx, ob='C20.a', quick=(tier == 'quick'),
                           nargs=nargs, timeout=400 if tier == 'quick' else 2000, weight=100,
                           bounds='caller %s; fixed %r; query modes %s; everything else symbolic'
                                  % (sk['name'], fx, '0..2 (fresh/alias/constant)' if tier == 'quick' else '0..5')))
    return us


def build(u):
    info = {}
    sk = [s for s in callers() if s['name'] == u['skeleton']][0]
    spec, body = make_body(sk, info)
    extra = ['m%d <= 2' % k for k in range(u['nargs'])] if u.get('quick') else []
    return ch.harness_from_spec(u['id'], spec, u['fixed'], body, extra_pre=extra, info=info)
