"""C06 - disjunction, if-then-else and negation follow standard semantics, and the source
is read with , < -> < ; (right-associative).  Work units: clause bodies WITHOUT cut
(bodies with cut are C05's units), each in the minimally parenthesised spelling (which
relies on the operator priorities) and/or the fully parenthesised one (C06.b)."""
from obligations import C05 as _c05
from vlib import control

PROPERTY = 'C06'
FUNCTIONS = _c05.FUNCTIONS + ['prologParser/visitPredicateexpression (natively, on the printed text: precedence and associativity)']
STUBS = _c05.STUBS
ASSUMPTIONS = _c05.ASSUMPTIONS[:1]
OUTSIDE = _c05.OUTSIDE[:2]
BOUNDS = {'quick': 'all cut-free bodies with <=1 operator in both spellings + seeded sample of 2- and 3-operator bodies; counts 0..2',
          'thorough': 'all cut-free bodies with <=2 operators in both spellings + seeded sample of 3..5-operator bodies'}
EXPLANATION = _c05.EXPLANATION


def units(tier, seed):
    return _c05.units(tier, seed, prop='C06', want_cut=False)


def build(u):
    return control.build_body_unit(u)
