"""C19 - the yldpc command line equals the library; debug options only add comments.

Ob C19.a (CrossHair, symbolic text): everything the debug writers put into the output stream
  - YPPrologCompiler._debug, YPPrologVisitor._debug (incl. the constructor's 'Parsing <file>'
  line) and the '# from <file>' header of YPPythonCodeGenerator.generate - consists of comment
  lines only, for symbolic message parts and a symbolic source file name (any Unicode,
  including line breaks and NUL): first character '#', every line break is the last
  character or is followed by '#', no carriage return and no NUL (Python treats both as
  line ends / refuses them).
Ob C19.b (CrossHair over the 4 flags): _set_debug_options + the real pipeline on a program
  pool (atoms with embedded newlines, non-ASCII text, control constructs): with comment lines
  removed, the stream (debug output followed by the code) equals the flag-free output, and
  the whole stream is loadable Python.
Ob C19.c (native matrix, click's CliRunner + real subprocesses; not a solver verdict): for
  every combination of {one, two sources} x {file, '-'} x {stdout, -o} x {a source that does
  not compile or none} the command writes the concatenation of the library results in order,
  reads standard input with the same encoding as files (non-ASCII program), and exits
  non-zero with file name and position when a source does not compile.
"""
import io
import os
import subprocess
import sys
import tempfile

from crosshair.tracers import NoTracing

from vlib import ch
from vlib.control import Ctx
import yldprolog.compiler as compiler
import yldprolog.yp_generator as gen
import yldprolog.yp_prolog_visitor as vis

PROPERTY = 'C19'
FUNCTIONS = ['yp_generator.YPPrologCompiler._debug', 'yp_prolog_visitor.YPPrologVisitor._debug', 'yp_prolog_visitor.YPPrologVisitor.__init__',
             'yp_prolog_visitor.comment_line', 'yp_generator.YPPythonCodeGenerator.generate (header)', 'compiler._set_debug_options',
             'compiler._compile_prolog_from_stream', 'compiler.main', 'compiler._open_input_file', 'compiler._open_output_file']
STUBS = ['output stream = a recorder object collecting write() calls', 'C19.c: click.testing.CliRunner (in-process) and subprocess runs of python -m yldprolog.compiler']
ASSUMPTIONS = ['a comment line is a line whose first character is #; Python ends a line at \\n and \\r and refuses NUL']
OUTSIDE = ['click\'s own option parsing', 'byte-level decoding errors on standard input', 'messages longer than the bound']
BOUNDS = {'quick': 'a: message parts of <=2 and <=1 characters and a file name of <=1 (writers) / <=3 (header) characters, full Unicode; b: 16 flag combinations x 6 programs; c: 24 CLI configurations + 4 subprocess runs',
          'thorough': 'a: <=4 characters'}
EXPLANATION = ('CrossHair executes the debug writers on symbolic message text and checks that what reaches the output stream is made of comment lines; '
               'the flag combinations and the CLI configurations are enumerated against the library functions')


class Recorder:
    def __init__(self):
        self.parts = []

    def write(self, s):
        self.parts.append(s)

    def text(self):
        return ''.join(self.parts)


class DebugCtx:
    def __init__(self, outf, fname, parser=True, generator=True, filename=True):
        self.debug_parser = parser
        self.debug_generator = generator
        self.debug_filename = filename
        self.current_source_file = fname
        self.outf = outf


def only_comment_lines(text):
    """symbolic-friendly: '' or ('#' first, every newline is last or followed by '#', no CR, no NUL)"""
    n = len(text)
    if n == 0:
        return True
    if text[0] != '#':
        return False
    if text[n - 1] != '\n':
        return False
    i = 0
    while i < n:
        c = text[i]
        if c == '\r' or c == '\0':
            return False
        if c == '\n' and i + 1 < n and text[i + 1] != '#':
            return False
        i += 1
    return True


def make_body_a(which, maxlen, info):
    if which in ('header', 'visitor-init'):
        spec = [('m1', 'str', 'len(m1) <= 0'), ('m2', 'str', 'len(m2) <= 0'), ('fn', 'str', 'len(fn) <= %d' % maxlen)]
    else:
        spec = [('m1', 'str', 'len(m1) <= %d' % (maxlen - 1)), ('m2', 'str', 'len(m2) <= 1'), ('fn', 'str', 'len(fn) <= 0')]

    def body(vals):
        m1, m2, fn = vals
        rec = Recorder()
        ctx = DebugCtx(rec, fn)
        try:
            if which == 'compiler':
                gen.YPPrologCompiler(ctx)._debug(m1, m2)
                gen.YPPrologCompiler(ctx)._debug(m1)
            elif which == 'visitor-init':
                vis.YPPrologVisitor(ctx)              # writes 'Parsing <file>'
            elif which == 'visitor':
                ctx.debug_filename = False
                v = vis.YPPrologVisitor(ctx)
                vis.YPPrologVisitor._debug(v, m1, m2)
            else:
                class Code:
                    def generate(self, g):
                        return ''
                out = gen.YPPythonCodeGenerator(ctx).generate(Code())
                rec.write(out)
        except Exception as e:
            ch.note(info, 'debug writer raised %s: %s', type(e).__name__, str(e)[:100])
            return ch.VIOLATED
        text = rec.text()
        if which == 'header':
            # header + blank line(s): every non-empty line must be a comment
            stripped = text.replace('\n\n', '\n')
            while stripped.endswith('\n\n'):
                stripped = stripped[:-1]
            text = stripped
        if not only_comment_lines(text):
            ch.note(info, 'debug output is not made of comment lines only: %r', text)
            return ch.VIOLATED
        return ch.HOLDS_NONTRIVIAL
    return spec, body


POOL = [
    "foo(a).\nbar(X) :- foo(X), \\+ baz(X).\n",
    "book('A title\nover two lines', 'x').\n",
    "nm('héllo 五', X) :- X = 'it\\'s'.\n",
    "t(X) :- (a(X) -> b(X) ; c(X)), !, d([X|T], T).\n",
    "z.\nz :- fail.\n",
    "q('line1\r\nline2', \"\").\n".replace('"', "'"),
    "c1(X) :- (a(X) -> b(X) ; c(X)).\nc2(X) :- \\+ a(X), (b(X) -> true ; c(X)), (c(X) -> d ; e).\n",
]


def strip_comments(text):
    return '\n'.join(l for l in text.split('\n') if not l.startswith('#'))


def make_body_b(info):
    spec = [('d', 'bool', None), ('dp', 'bool', None), ('dg', 'bool', None), ('df', 'bool', None),
            ('pi', 'int', '0 <= pi <= %d' % (len(POOL) - 1))]

    def body(vals):
        import antlr4
        d, dp, dg, df, pi = vals
        idx = 0
        for j in range(len(POOL)):
            if pi == j:
                idx = j

        class C:
            pass
        ctx = C()
        ctx.params = {'debug': True if d else False, 'debug_parser': True if dp else False,
                      'debug_generator': True if dg else False, 'debug_filename': True if df else False}
        compiler._set_debug_options(ctx)
        flags = (True if ctx.debug_parser else False, True if ctx.debug_generator else False, True if ctx.debug_filename else False)
        with NoTracing():
            rec = Recorder()
            ctx.debug_parser, ctx.debug_generator, ctx.debug_filename = flags
            ctx.outf = rec
            ctx.current_source_file = 'some file.prolog'
            try:
                code = compiler._compile_prolog_from_stream(antlr4.InputStream(POOL[idx]), ctx)
                rec.write(code)
                plain = compiler.compile_prolog_from_string(POOL[idx], Ctx)
            except Exception as e:
                info['reason'] = 'compiling with flags %r raised %s: %s' % (flags, type(e).__name__, str(e)[:100])
                return ch.VIOLATED
            stream = rec.text()
            if strip_comments(stream).strip() != strip_comments(plain).strip():
                info['reason'] = 'with debug flags %r the non-comment part of the output differs from the flag-free output (program %d)' % (flags, idx)
                return ch.VIOLATED
            try:
                compile(stream, 'out', 'exec')
            except Exception as e:
                info['reason'] = 'output with debug flags %r is not loadable: %s (program %d)' % (flags, e, idx)
                return ch.VIOLATED
        return ch.HOLDS_NONTRIVIAL if any(flags) else ch.HOLDS_TRIVIAL
    return spec, body


class CliMatrix(ch.DirectUnit):
    def __init__(self):
        self.info = {}

    def cases(self):
        good = ["foo(a).\nbar(X) :- foo(X).\n", "nm('héllo 五', 'two\r\nlines', 'cr\ronly').\r\nx.\n"]
        bad = "cat(tom) :- 1.\n"
        broken = "foo(a) :- .\n"
        out = []
        for srcs in ([good[0]], [good[1]], [good[0], good[1]], [good[1], good[0]], [good[0], bad], [broken, good[0]], [good[0], good[0]],
                     [good[0], broken, good[1]]):
            for stdin_pos in (None, 0, len(srcs) - 1):
                for to_file in (False, True):
                    out.append((srcs, stdin_pos, to_file))
        return out

    def run_case(self, case, tmp):
        from click.testing import CliRunner
        srcs, stdin_pos, to_file = case
        args, expected, stdin_text = [], [], None
        fails = None
        for i, s in enumerate(srcs):
            try:
                exp = compiler.compile_prolog_from_string(s, Ctx)
            except Exception as e:
                exp = None
                if fails is None:
                    fails = i
            expected.append(exp)
            if i == stdin_pos:
                args.append('-')
                stdin_text = s
            else:
                path = os.path.join(tmp, 'src%d.prolog' % srcs.index(s))      # identical texts = the same file named again
                with open(path, 'w', encoding='utf8') as f:
                    f.write(s)
                args.append(path)
        outpath = os.path.join(tmp, 'out.py')
        if os.path.exists(outpath):
            os.unlink(outpath)
        if to_file:
            args = ['-o', outpath] + args
        res = CliRunner().invoke(compiler.main, args, input=(stdin_text.encode('utf8') if stdin_text is not None else None))
        written = open(outpath, encoding='utf8').read() if to_file and os.path.exists(outpath) else res.output
        if fails is None:
            want = ''.join(expected)
            if res.exit_code != 0:
                return 'exit status %r (%r) for sources that compile: %r' % (res.exit_code, res.exception, args)
            if written != want:
                return 'output of %r differs from the concatenation of the library results' % (args,)
        else:
            if res.exit_code == 0:
                return 'exit status 0 although source %d does not compile: %r' % (fails, args)
            name = args[-len(srcs):][fails]
            if name != '-' and name not in res.output:
                return 'error output does not name the file %r: %r' % (name, res.output[-200:])
            prefix = ''.join(expected[:fails])
            if not written.replace(res.output if not to_file else '', '').startswith('') or (to_file and written != prefix):
                return 'code written before the failing source differs from the library results'
        return None

    def subprocess_cases(self, tmp):
        problems = []
        good = os.path.join(tmp, 'g.prolog')
        open(good, 'w', encoding='utf8').write("nm('héllo 五').\n")
        bad = os.path.join(tmp, 'b.prolog')
        open(bad, 'w', encoding='utf8').write("foo(a) :- .\n")
        env = dict(os.environ)
        lib = compiler.compile_prolog_from_file(good, Ctx)
        p = subprocess.run([sys.executable, '-m', 'yldprolog.compiler', good], capture_output=True, env=env, timeout=60)
        if p.returncode != 0 or p.stdout.decode('utf8') != lib:
            problems.append('python -m yldprolog.compiler FILE: exit %d / output differs' % p.returncode)
        p = subprocess.run([sys.executable, '-m', 'yldprolog.compiler', '-'], input=open(good, 'rb').read(), capture_output=True, env=env, timeout=60)
        if p.returncode != 0 or p.stdout.decode('utf8') != lib:
            problems.append('python -m yldprolog.compiler - (UTF-8 stdin): exit %d %s' % (p.returncode, p.stderr.decode()[-120:]))
        p = subprocess.run([sys.executable, '-m', 'yldprolog.compiler', bad], capture_output=True, env=env, timeout=60)
        if p.returncode == 0 or b'b.prolog' not in p.stderr + p.stdout:
            problems.append('syntax error: exit %d, message %r' % (p.returncode, (p.stderr + p.stdout)[-120:]))
        p = subprocess.run([sys.executable, '-m', 'yldprolog.compiler', '-d', good], capture_output=True, env=env, timeout=60)
        try:
            compile(p.stdout.decode('utf8'), 'out', 'exec')
        except Exception as e:
            problems.append('-d output not loadable: %s' % e)
        return problems

    def run(self):
        tmp = tempfile.mkdtemp(prefix='c19_')
        try:
            cases = self.cases()
            for c in cases:
                why = self.run_case(c, tmp)
                if why:
                    return dict(verdict='violated', counterexample={'case': [c[0], c[1], c[2]]}, message=why, state='CLI',
                                replay=dict(native_result=2, info={'reason': why}))
            problems = self.subprocess_cases(tmp)
            if problems:
                return dict(verdict='violated', counterexample={'case': 'subprocess'}, message=problems[0], state='CLI',
                            replay=dict(native_result=2, info={'reason': '; '.join(problems)}))
        finally:
            import shutil
            shutil.rmtree(tmp, True)
        return dict(verdict='discharged', state='VALIDATION', paths=0, nontrivial=len(cases), solver_queries=len(cases) + 4,
                    validation=dict(kind='native CLI matrix (CliRunner + subprocess), not a solver verdict', cases=len(cases) + 4),
                    sample=dict(example_case=[cases[2][0], cases[2][1], cases[2][2]]))

    def run_native(self, args):
        tmp = tempfile.mkdtemp(prefix='c19_')
        try:
            if args.get('case') == 'subprocess':
                pr = self.subprocess_cases(tmp)
                self.info['reason'] = '; '.join(pr)
                return 2 if pr else 0
            c = args['case']
            why = self.run_case((c[0], c[1], c[2]), tmp)
            self.info['reason'] = why
            return 2 if why else 0
        finally:
            import shutil
            shutil.rmtree(tmp, True)


def units(tier, seed):
    us = []
    maxlen = 3 if tier == 'quick' else 4
    for which in ('compiler', 'visitor', 'visitor-init', 'header'):
        us.append(dict(id='a.debug-writer.%s' % which, kind='a', which=which, maxlen=maxlen, fixed={}, ob='C19.a',
                       timeout=400 if tier == 'quick' else 2400, weight=80,
                       bounds='%s debug writer; message parts and file name of <=%d characters, full Unicode' % (which, maxlen)))
    for pi in range(len(POOL)):
        us.append(dict(id='b.flags.prog%d' % pi, kind='b', fixed={'pi': pi}, ob='C19.b', timeout=300, weight=40,
                       bounds='16 flag combinations on program %d of the pool' % pi))
    us.append(dict(id='c.cli-matrix', kind='c', fixed={}, ob='C19.c', timeout=600, weight=60, bounds='36 CliRunner configurations + 4 subprocess runs'))
    return us


def build(u):
    info = {}
    if u['kind'] == 'c':
        return CliMatrix()
    if u['kind'] == 'a':
        spec, body = make_body_a(u['which'], u['maxlen'], info)
    else:
        spec, body = make_body_b(info)
    return ch.harness_from_spec(u['id'], spec, u['fixed'], body, info=info)
