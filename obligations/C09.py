"""C09 - call/N, once/1, findall/3, = and \\= agree with their standard definitions.

Ob C09.a (API level): the builtins are invoked through YP.query on goals over dynamic
predicates bar/0, foo/1, foo2/2 with a symbolic number of facts and symbolic integer
columns.  Symbolic: builtin (call / once / findall), target predicate, goal form (term
passed directly or held in a variable bound at run time; for call/N the number of
trailing arguments moved into extra arguments), argument modes and constants, template.
Ob C09.b (compiled level): the same shapes written in Prolog and compiled (skeletons).
Ob C09.c: X = Y and X \\= Y as goals on decoded term pairs vs the reference unifier.
Oracle: vlib.refprolog.
"""
from vlib import ch
from vlib.refprolog import Interp, mklist
from vlib.terms import (show, resolve, Cyclic, Decoder, runify, slot_alphabet_sizes)
from vlib.sld import V, A, C, F, L, NIL, call, conj, eq, TRUE, build_sld_unit
from yldprolog.engine import unify, Variable

PROPERTY = 'C09'
FUNCTIONS = ['engine.YP.call', 'engine.YP.once', 'engine.YP.findall', 'engine.builtin_eq', 'engine.YP.builtin_neq',
             'engine.YP.makelist', 'engine.YP.listpair', 'engine.YP.query', 'engine.YP.match_dynamic', 'engine.get_value',
             'generated code of the C09.b skeletons']
STUBS = []
ASSUMPTIONS = ['target predicates are dynamic facts with integer columns; goals are callable terms (atoms or compounds)']
OUTSIDE = ['non-callable goals (unbound variable, number)', 'free variables shared between findall instances']
BOUNDS = {'quick': 'bar/0, foo/1, foo2/2 with 0..2 facts each; all builtin x target x goal-form x argument-mode combinations; 8 compiled skeletons; '
                   '=/\\= on term pairs of depth <=1 over 2 variables',
          'thorough': '0..3 facts; same combinations'}
EXPLANATION = ('CrossHair executes the meta-call builtins on goals over a symbolic fact base, with the goal shape, the way it arrives '
               '(inline / in a variable bound at run time / split into extra arguments) and the argument modes symbolic; answers are compared '
               'with the reference interpreter on every path; CONFIRMED = path tree exhausted')
TARGETS = [('bar', 0), ('foo', 1), ('foo2', 2)]


def spec_for(nmax):
    spec = [('nbar', 'int', '0 <= nbar <= %d' % nmax), ('nfoo', 'int', '0 <= nfoo <= %d' % nmax),
            ('nfoo2', 'int', '0 <= nfoo2 <= %d' % nmax)]
    for i in range(nmax):
        spec += [('foo%d' % i, 'int', None), ('foo2a%d' % i, 'int', None), ('foo2b%d' % i, 'int', None)]
    spec += [('b', 'int', '0 <= b <= 2'), ('tg', 'int', '0 <= tg <= 2'), ('viavar', 'bool', None),
             ('split', 'int', '0 <= split <= 2'), ('ma', 'int', '0 <= ma <= 1'), ('mb', 'int', '0 <= mb <= 2'),
             ('ca', 'int', None), ('cb', 'int', None), ('tm', 'int', '0 <= tm <= 2'), ('bag', 'int', '0 <= bag <= 3'),
             ('e0', 'int', None), ('e1', 'int', None)]
    return spec


def make_body_a(nmax, info):
    spec = spec_for(nmax)
    ix = ch.index_of(spec)

    def body(vals):
        ch.install_registry(False)
        g = lambda k: vals[ix[k]]
        yp = ch.new_engine()
        interp = Interp([])
        for i in range(nmax):
            if i < g('nbar'):
                yp.assert_fact(yp.atom('bar'), [])
                interp.assert_fact('bar', (), {})
            if i < g('nfoo'):
                yp.assert_fact(yp.atom('foo'), [g('foo%d' % i)])
                interp.assert_fact('foo', (('c', g('foo%d' % i)),), {})
            if i < g('nfoo2'):
                yp.assert_fact(yp.atom('foo2'), [g('foo2a%d' % i), g('foo2b%d' % i)])
                interp.assert_fact('foo2', (('c', g('foo2a%d' % i)), ('c', g('foo2b%d' % i))), {})
        tg = g('tg')
        name, arity = TARGETS[0]
        for j in range(3):
            if tg == j:
                name, arity = TARGETS[j]
        # arguments of the target goal
        qvars = []
        args, rargs = [], []
        for pos in range(arity):
            mode = g('ma') if pos == 0 else g('mb')
            const = g('ca') if pos == 0 else g('cb')
            if mode == 1:
                args.append(const)
                rargs.append(('c', const))
            elif mode == 2 and qvars:
                args.append(qvars[0][0])
                rargs.append(qvars[0][1])
            else:
                v, r = yp.variable(), interp.new_var()
                qvars.append((v, r))
                args.append(v)
                rargs.append(r)
        b = g('b')
        split = g('split')
        nsplit = 0
        if b == 0:
            for j in range(arity + 1):
                if split == j:
                    nsplit = j
        inner_n = arity - nsplit
        if inner_n == 0:
            G, rG = yp.atom(name), ('a', name)
        else:
            G, rG = yp.functor(name, args[:inner_n]), ('f', name, tuple(rargs[:inner_n]))
        extra, rextra = args[inner_n:], rargs[inner_n:]
        held = None
        goal = G
        if g('viavar'):
            goal = yp.variable()
            held = iter(unify(goal, G))
            next(held)
        Lv, rL = yp.variable(), interp.new_var()
        if b == 0:
            bname, bargs, rbargs = 'call', [goal] + extra, [rG] + rextra
        elif b == 1:
            bname, bargs, rbargs = 'once', [goal], [rG]
        else:
            tm = g('tm')
            if tm == 0 and qvars:
                T, rT = qvars[0][0], qvars[0][1]
            elif tm == 1:
                T = yp.functor('f', [a for a in args])
                rT = ('f', 'f', tuple(rargs))
            else:
                T, rT = yp.atom('x'), ('a', 'x')
            # the bag may arrive already bound to a closed list (of 0, 1 or 2 symbolic integers)
            bagk = g('bag')
            Lreal, Lref = Lv, rL
            if bagk == 1:
                Lreal, Lref = yp.makelist([]), mklist([])
            elif bagk == 2:
                Lreal, Lref = yp.makelist([g('e0')]), mklist([('c', g('e0'))])
            elif bagk == 3:
                Lreal, Lref = yp.makelist([g('e0'), g('e1')]), mklist([('c', g('e0')), ('c', g('e1'))])
            bname, bargs, rbargs = 'findall', [T, goal, Lreal], [rT, rG, Lref]
        watch = [v for v, _ in qvars] + [Lv]
        rwatch = [r for _, r in qvars] + [rL]
        try:
            exp = []
            for s in interp.query(bname, rbargs):
                names = {}
                exp.append(tuple([resolve(r, s, names) for r in rwatch]))
        except Cyclic:
            return ch.HOLDS_TRIVIAL
        got = []
        try:
            for _ in yp.query(bname, bargs):
                names = {}
                got.append(tuple([show(v, names) for v in watch]))
                if len(got) > 12:
                    break
        except Exception as e:
            ch.note(info, '%s raised %s: %s', bname, type(e).__name__, str(e)[:150])
            return ch.VIOLATED
        if got != exp:
            ch.note(info, '%s/%d on %s/%d: answers %r, reference %r', bname, len(bargs), name, arity, got, exp)
            return ch.VIOLATED
        # the same goal term is called again (goals held in variables are reused): same answers
        again = []
        try:
            for _ in yp.query(bname, bargs):
                names = {}
                again.append(tuple([show(v, names) for v in watch]))
                if len(again) > 12:
                    break
        except Exception as e:
            ch.note(info, 'second %s on the same goal term raised %s: %s', bname, type(e).__name__, str(e)[:150])
            return ch.VIOLATED
        if again != exp:
            ch.note(info, 'calling %s a second time on the same goal term gives %r, first time %r', bname, again, exp)
            return ch.VIOLATED
        if held is not None:
            held.close()
        for v in watch:
            if v._is_bound:
                ch.note(info, 'variable still bound after %s', bname)
                return ch.VIOLATED
        return ch.HOLDS_NONTRIVIAL if (exp or b != 0) else ch.HOLDS_TRIVIAL
    return spec, body


# ---- C09.c: = and \= as goals ---------------------------------------------------------
EQL = [['v0', 'v1', 'int', 'A', 'F1', 'F2'], ['v0', 'v1', 'int', 'A']]


def make_body_c(info):
    spec = []
    k = 0
    for levels in (EQL, EQL):
        for size in slot_alphabet_sizes(levels):
            spec.append(('k%d' % k, 'int', '0 <= k%d <= %d' % (k, size - 1)))
            k += 1
    nc = k
    for i in range(nc):
        spec.append(('i%d' % i, 'int', None))
    spec.append(('fn', 'str', 'len(fn) <= 1'))

    def body(vals):
        ch.install_registry(False)
        yp = ch.new_engine()
        vs = [Variable(), Variable()]
        dec = Decoder(vs, ['a', 'b', 'f', vals[2 * nc]], vals[:nc], vals[nc:2 * nc])
        t1, r1 = dec.term(EQL)
        t2, r2 = dec.term(EQL)
        try:
            s = runify(r1, r2, {})
        except Cyclic:
            return ch.HOLDS_TRIVIAL
        try:
            n = 0
            for _ in yp.query('=', [t1, t2]):
                n += 1
                names = {}
                obs = (show(t1, names), show(t2, names), show(vs[0], names), show(vs[1], names))
            m = 0
            for _ in yp.query('\\=', [t1, t2]):
                m += 1
                if vs[0]._is_bound or vs[1]._is_bound:
                    ch.note(info, '\\= bound a variable')
                    return ch.VIOLATED
        except Exception as e:
            ch.note(info, 'raised %s: %s', type(e).__name__, str(e)[:150])
            return ch.VIOLATED
        if n != (1 if s is not None else 0) or m != (0 if s is not None else 1):
            ch.note(info, '= succeeded %d times, \\= %d times; unifiable: %r', n, m, s is not None)
            return ch.VIOLATED
        if s is not None:
            names = {}
            exp = (resolve(r1, s, names), resolve(r2, s, names), resolve(('v', 0), s, names), resolve(('v', 1), s, names))
            if obs != exp:
                ch.note(info, 'bindings of = %r, reference %r', obs, exp)
                return ch.VIOLATED
        if vs[0]._is_bound or vs[1]._is_bound:
            ch.note(info, 'variable still bound afterwards')
            return ch.VIOLATED
        return ch.HOLDS_NONTRIVIAL
    return spec, body


# ---- C09.b: compiled skeletons ----------------------------------------------------------
X, Y, G, Lq = V('X'), V('Y'), V('G'), V('L')


def skeletons(nf):
    S = []

    def sk(name, clauses, query, facts):
        S.append(dict(name=name, clauses=clauses, query=query, facts=facts))
    d1 = {('foo', 1): nf}
    sk('callvar', [(F('t', X), conj(eq(G, F('foo', X)), call('call', G)))], ('t', ['any']), d1)
    sk('callextra', [(F('t', X), conj(eq(G, A('foo')), call('call', G, X)))], ('t', ['any']), d1)
    sk('callpartial', [(F('t', X, Y), conj(eq(G, F('foo2', X)), call('call', G, Y)))], ('t', ['any', 'any']), {('foo2', 2): nf})
    sk('callreuse', [(F('t', X, Y), conj(eq(G, F('foo2', X)), call('call', G, Y), call('call', G, V('Z')), eq(V('Z'), Y)))], ('t', ['any', 'any']), {('foo2', 2): nf})
    sk('onceinline', [(F('t', X), call('once', F('foo', X)))], ('t', ['any']), d1)
    sk('oncevaratom', [(A('t0'), conj(eq(G, A('bar')), call('once', G))), (F('t', X), conj(call('t0'), call('foo', X)))],
       ('t', ['any']), {('foo', 1): nf, ('bar', 0): nf})
    sk('findallinline', [(F('t', Lq), call('findall', X, F('foo', X), Lq))], ('t', ['any']), d1)
    sk('findallatom', [(F('t', Lq), call('findall', A('x'), A('bar'), Lq))], ('t', ['any']), {('bar', 0): nf})
    sk('findallvar', [(F('t', Lq, Y), conj(eq(G, F('foo2', X, Y)), call('findall', F('f', X), G, Lq)))],
       ('t', ['any', 'any']), {('foo2', 2): nf})
    return S


def units(tier, seed):
    us = []
    nmax = 2 if tier == 'quick' else 3
    for b, bn in enumerate(['call', 'once', 'findall']):
        for tg, (tn, ar) in enumerate(TARGETS):
            parts = [{}]
            if tn == 'foo2':
                parts = [{'viavar': vv, 'ma': ma} for vv in (False, True) for ma in (0, 1)]
            if bn == 'findall':
                parts = [dict(p, bag=k) for p in parts for k in ((0, 2) if (tier == 'quick' and tn == 'foo2') else (0, 1, 2, 3))]
            else:
                parts = [dict(p, bag=0) for p in parts]
            for fx in parts:
                tag = ''.join('.%s%d' % (k, int(v)) for k, v in sorted(fx.items()))
                us.append(dict(id='a.%s.%s%s' % (bn, tn, tag), kind='a', nmax=nmax, fixed=dict({'b': b, 'tg': tg}, **fx), ob='C09.a',
                               timeout=300 if tier == 'quick' else 1500, weight=60,
                               bounds='%s on %s/%d, 0..%d facts, all goal forms and argument modes %r' % (bn, tn, ar, nmax, fx)))
    for sk in skeletons(nmax):
        us.append(dict(id='b.%s' % sk['name'], kind='b', skeleton=sk['name'], nf=nmax, fixed={}, ob='C09.b',
                       timeout=300 if tier == 'quick' else 1500, weight=40, cap=12,
                       bounds='compiled skeleton %s, 0..%d facts, symbolic query modes' % (sk['name'], nmax)))
    for k0 in range(len(EQL[0])):
        us.append(dict(id='c.eq-neq.top%s' % EQL[0][k0], kind='c', fixed={'k0': k0}, ob='C09.c',
                       timeout=300 if tier == 'quick' else 900, weight=40,
                       bounds='X = Y and X \\= Y on terms of depth <=1 over 2 variables, left top symbol %s' % EQL[0][k0]))
    return us


def build(u):
    info = {}
    if u['kind'] == 'b':
        sk = [s for s in skeletons(u['nf']) if s['name'] == u['skeleton']][0]
        return build_sld_unit(u, sk)
    if u['kind'] == 'c':
        spec, body = make_body_c(info)
    else:
        spec, body = make_body_a(u['nmax'], info)
    return ch.harness_from_spec(u['id'], spec, u['fixed'], body, info=info)
